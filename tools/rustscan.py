"""Minimal Rust source scanner: masks comments/strings, matches braces, finds impl blocks, fns and
statement ranges by anchor (never by line number), so that unrelated edits do not move anchors."""
import re


class AnchorError(Exception):
    """An anchor (impl header / fn name / range regex) was not found or is ambiguous -> exit 2 (undecided)."""


def mask(src: str) -> str:
    """Return a copy of src with the *contents* of comments, string/char literals replaced by spaces
    (newlines kept), same length, so that offsets agree with the original text."""
    out = list(src)
    i, n = 0, len(src)

    def blank(a, b):
        for k in range(a, b):
            if out[k] != '\n':
                out[k] = ' '

    while i < n:
        c = src[i]
        if src.startswith('//', i):
            j = src.find('\n', i)
            j = n if j < 0 else j
            blank(i, j)
            i = j
        elif src.startswith('/*', i):
            depth, j = 1, i + 2
            while j < n and depth:
                if src.startswith('/*', j):
                    depth += 1; j += 2
                elif src.startswith('*/', j):
                    depth -= 1; j += 2
                else:
                    j += 1
            blank(i, j)
            i = j
        elif c == '"' or (c in 'br' and re.match(r'(b?r#*"|b")', src[i:i + 8]) and (i == 0 or not (src[i - 1].isalnum() or src[i - 1] == '_'))):
            m = re.match(r'b?(r(#*))?"', src[i:])
            if m.group(1) is not None:  # raw string
                term = '"' + m.group(2)
                j = src.find(term, i + m.end())
                j = n if j < 0 else j + len(term)
            else:
                j = i + m.end()
                while j < n and src[j] != '"':
                    j += 2 if src[j] == '\\' else 1
                j += 1
            blank(i + m.end(), j - 1)
            i = j
        elif c == "'":
            # char literal or lifetime
            if i + 1 < n and src[i + 1] == '\\':
                j = src.find("'", i + 2)
                # handle '\''
                if src[i + 2] == "'":
                    j = src.find("'", i + 3)
                blank(i + 1, j)
                i = j + 1
            elif i + 2 < n and src[i + 2] == "'":
                blank(i + 1, i + 2)
                i += 3
            else:
                i += 1  # lifetime
        else:
            i += 1
    return ''.join(out)


def match_brace(m: str, open_pos: int) -> int:
    """m is masked text; open_pos indexes '{', '(' or '['. Return index of the matching closer."""
    pairs = {'{': '}', '(': ')', '[': ']'}
    o = m[open_pos]
    c = pairs[o]
    depth = 0
    for k in range(open_pos, len(m)):
        ch = m[k]
        if ch == o:
            depth += 1
        elif ch == c:
            depth -= 1
            if depth == 0:
                return k
    raise AnchorError(f'unbalanced {o} at offset {open_pos}')


def find_impl_bodies(m: str, impl_regex: str):
    """All impl blocks whose header matches (a type may have several `impl T {` blocks)."""
    if impl_regex.strip() in ('-', ''):
        return [(-1, len(m))]
    hits = []
    for mm in re.finditer(r'(?m)^[ \t]*(?:unsafe\s+)?impl\b', m):
        ob = m.find('{', mm.start())
        if ob < 0:
            continue
        header = ' '.join(m[mm.start():ob].split())
        if re.search(impl_regex, header):
            hits.append((ob, match_brace(m, ob)))
    if not hits:
        raise AnchorError(f'impl anchor /{impl_regex}/ matched 0 blocks')
    return hits


def find_impl_body(m: str, impl_regex: str):
    """Find the single `impl ... {` header whose text (whitespace-normalised, up to '{') matches impl_regex.
    Returns (open_brace, close_brace). impl_regex '-' means top level (whole file)."""
    if impl_regex.strip() in ('-', ''):
        return (-1, len(m))
    hits = []
    for mm in re.finditer(r'(?m)^[ \t]*(?:unsafe\s+)?impl\b', m):
        ob = m.find('{', mm.start())
        if ob < 0:
            continue
        header = ' '.join(m[mm.start():ob].split())
        if re.search(impl_regex, header):
            hits.append((ob, match_brace(m, ob), header))
    if len(hits) != 1:
        raise AnchorError(f'impl anchor /{impl_regex}/ matched {len(hits)} blocks: {[h[2] for h in hits]}')
    return hits[0][0], hits[0][1]


def depth_at(m: str, start: int, pos: int) -> int:
    d = 0
    for k in range(start, pos):
        if m[k] == '{':
            d += 1
        elif m[k] == '}':
            d -= 1
    return d


def find_fn(src: str, m: str, impl_regex: str, name: str):
    """Locate fn `name` directly inside the container. Returns dict with offsets:
    item_start (start of line of first attribute/doc/`pub`), sig_start (the `fn` keyword... actually start of
    qualifiers like pub/async), body_open, body_close (indexes of braces)."""
    hits = []
    for ob, cb in find_impl_bodies(m, impl_regex):
        for mm in re.finditer(r'\bfn\s+' + re.escape(name) + r'\b', m[ob + 1:cb]):
            pos = ob + 1 + mm.start()
            if depth_at(m, ob + 1, pos) == 0:
                hits.append(pos)
    if len(hits) != 1:
        raise AnchorError(f'fn anchor {name} in /{impl_regex}/ matched {len(hits)} items')
    fn_kw = hits[0]
    # body: first '{' after the signature at paren depth 0 (skip where clauses; generics contain no braces)
    k = fn_kw
    pd = 0
    while True:
        ch = m[k]
        if ch in '([':
            pd += 1
        elif ch in ')]':
            pd -= 1
        elif ch == '{' and pd == 0:
            break
        elif ch == ';' and pd == 0:
            raise AnchorError(f'fn {name} has no body')
        k += 1
    body_open = k
    body_close = match_brace(m, body_open)
    # qualifiers before `fn` on the same line
    line_start = src.rfind('\n', 0, fn_kw) + 1
    sig_start = line_start + (len(src[line_start:fn_kw]) - len(src[line_start:fn_kw].lstrip()))
    # attributes / doc comments above
    item_start = line_start
    while True:
        prev_end = item_start - 1
        if prev_end <= 0:
            break
        prev_start = src.rfind('\n', 0, prev_end) + 1
        prev = src[prev_start:prev_end].strip()
        if prev.startswith('#[') or prev.startswith('///'):
            item_start = prev_start
        else:
            break
    return dict(item_start=item_start, sig_start=sig_start, fn_kw=fn_kw, body_open=body_open, body_close=body_close)


def line_of(src: str, pos: int) -> int:
    return src.count('\n', 0, pos) + 1


def find_range(src: str, m: str, impl_regex: str, fn_name: str, start_re: str, end_re: str, exclusive: bool = False, start_after: bool = False, start_nth=None):
    """Inside fn body, the range runs from the start of the first line matching start_re to the end of the
    first line (at or after it) matching end_re, inclusive. Braces inside the range must balance."""
    f = find_fn(src, m, impl_regex, fn_name)
    lo, hi = f['body_open'] + 1, f['body_close']
    body = src[lo:hi]
    lines = body.split('\n')
    offs = []
    o = lo
    for ln in lines:
        offs.append(o)
        o += len(ln) + 1
    s_hits = [i for i, ln in enumerate(lines) if re.search(start_re, ln)]
    if start_nth is not None:
        if start_nth >= len(s_hits):
            raise AnchorError(f'range start /{start_re}/ #{start_nth} in fn {fn_name}: only {len(s_hits)} matches')
        s_hits = [s_hits[start_nth]]
    if len(s_hits) != 1:
        raise AnchorError(f'range start /{start_re}/ in fn {fn_name} matched {len(s_hits)} lines')
    si = s_hits[0]
    if start_after:
        si += 1
    if end_re in ('@stmt', '@block'):
        # the statement that starts on the START line: up to the first line ending with ';' at balanced depth
        ei = None
        for i in range(si, len(lines)):
            seg = m[offs[si]:offs[i] + len(lines[i])]
            if seg.count('{') == seg.count('}') and seg.count('(') == seg.count(')') and seg.rstrip().endswith(';' if end_re == '@stmt' else '}'):
                ei = i
                break
        if ei is None:
            raise AnchorError(f'statement starting at /{start_re}/ in fn {fn_name} does not end')
        e_hits = [ei]
    else:
        e_hits = [i for i, ln in enumerate(lines) if i >= si and re.search(end_re, ln)]
        if not e_hits:
            raise AnchorError(f'range end /{end_re}/ in fn {fn_name} not found after start')
        ei = e_hits[0]
    if exclusive:
        ei -= 1
        while ei > si and not lines[ei].strip():
            ei -= 1
    a, b = offs[si], offs[ei] + len(lines[ei])
    seg = m[a:b]
    if seg.count('{') != seg.count('}') or seg.count('(') != seg.count(')'):
        raise AnchorError(f'range /{start_re}/../{end_re}/ in fn {fn_name} is not balanced')
    return a, b
