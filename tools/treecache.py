"""Per-tree build directories under /verif/.cache.

The `risinglight` crate is a cdylib+rlib, so cargo writes its library to un-hashed file names (librisinglight.rlib):
two source trees built into ONE target directory overwrite each other's library while cargo's fingerprints still say
"fresh" - a check of tree A could then link tree B's code. Every tree under check therefore gets its own crate and
target directories, keyed by the tree's path. Scratch trees (mutation / seeded runs) start from a copy of /repo's
directories, so only the crate itself is rebuilt, and are removed by `cleanup` when the scratch tree goes away."""
import os, hashlib, shutil, subprocess, fcntl
HERE = os.path.dirname(os.path.dirname(os.path.abspath(__file__)))
CACHE = os.environ.get('VERIF_KANI_CACHE', os.path.join(HERE, '.cache'))
BASE_REPO = '/repo'


def tag(repo):
    return hashlib.sha1(os.path.realpath(repo).encode()).hexdigest()[:10]


def dir_for(kind, repo):
    """kind: 'replay-target' | 'replay-crate' | 'kani-target'. Seeds a scratch tree's target dir from /repo's."""
    os.makedirs(CACHE, exist_ok=True)
    d = os.path.join(CACHE, f'{kind}-{tag(repo)}')
    if not os.path.exists(d) and kind.endswith('-target') and os.path.realpath(repo) != os.path.realpath(BASE_REPO):
        base = os.path.join(CACHE, f'{kind}-{tag(BASE_REPO)}')
        if os.path.isdir(base):
            with open(os.path.join(CACHE, 'seed.lock'), 'w') as lk:
                fcntl.flock(lk, fcntl.LOCK_EX)
                if not os.path.exists(d):
                    subprocess.run(['cp', '-a', base, d + '.part'], check=False)
                    os.rename(d + '.part', d)
    return d


def cleanup(repo):
    """Remove every per-tree directory / binary of a scratch tree (never /repo's)."""
    if os.path.realpath(repo) == os.path.realpath(BASE_REPO):
        return
    t = tag(repo)
    for n in os.listdir(CACHE):
        if n.endswith('-' + t) or n.endswith('-' + t + '.part') or n.endswith('-' + t + '.lock'):
            p = os.path.join(CACHE, n)
            shutil.rmtree(p, ignore_errors=True) if os.path.isdir(p) else os.remove(p)
