#!/usr/bin/env python3
"""Benign-edit suite (contracts/benign.json): semantics-preserving edits of functions under contract must never produce a
VIOLATION. Each edit is applied to a scratch copy of /repo (never /repo itself); exit 2 (undecided) is allowed and reported.
usage: benign_run.py [ids...]   ->  prints one line per (edit, property); writes evidence/benign.json; exit 1 on a false alarm."""
import os, sys, json, subprocess, shutil, tempfile, re
HERE = os.path.dirname(os.path.dirname(os.path.abspath(__file__)))
sys.path.insert(0, os.path.join(HERE, 'tools'))
only = sys.argv[1:]
edits = json.load(open(os.path.join(HERE, 'contracts', 'benign.json')))['edits']
rows, bad = [], 0
for e in edits:
    if only and e['id'] not in only:
        continue
    tmp = tempfile.mkdtemp(prefix='benign-', dir='/tmp')
    try:
        subprocess.run(['rsync', '-a', '--exclude', 'target', '--exclude', '.git', '/repo/', tmp + '/'], check=True)
        f = os.path.join(tmp, e['file'])
        before = open(f).read()
        subprocess.run(['sed', '-i', e['sed'], f], check=True)
        if open(f).read() == before:
            rows.append({'edit': e['id'], 'result': 'not-applied', 'note': e['note']}); print(rows[-1], flush=True); continue
        cc = subprocess.run(['cargo', 'check', '--offline', '-q', '--lib'], cwd=tmp, capture_output=True, text=True,
                            env=dict(os.environ, CARGO_TARGET_DIR='/tmp/benign-target', CARGO_NET_OFFLINE='true'))
        if cc.returncode != 0:
            rows.append({'edit': e['id'], 'result': 'does-not-compile', 'note': e['note'], 'err': cc.stderr[-400:]}); print(rows[-1], flush=True); continue
        env = dict(os.environ, VERIF_REPO=tmp, VERIF_GEN=tmp + '/.gen', VERIF_EVIDENCE_DIR=tmp + '/.evidence', VERIF_FINDINGS_DIR=tmp + '/.findings')
        for p in e['props']:
            r = subprocess.run([os.path.join(HERE, 'check'), p], env=env, cwd=HERE, capture_output=True, text=True)
            und = re.findall(r'UNDECIDED property=\S+ unit=(\S+?):', r.stdout)
            viol = re.findall(r'VIOLATION property=\S+ replay=\S*/(\S+?)\.json', r.stdout)
            rows.append({'edit': e['id'], 'property': p, 'exit': r.returncode, 'undecided_units': und, 'violations': viol, 'note': e['note']})
            print(rows[-1], flush=True)
            if r.returncode == 1:
                bad += 1
    finally:
        shutil.rmtree(tmp, ignore_errors=True)
        import treecache; treecache.cleanup(tmp)
shutil.rmtree('/tmp/benign-target', ignore_errors=True)
os.makedirs(os.path.join(HERE, 'seeded'), exist_ok=True)
bp = os.path.join(HERE, 'seeded', 'BENIGN.json')
if only and os.path.exists(bp):
    # a partial run replaces only the rows of the edits it ran
    keep = [r for r in json.load(open(bp)) if r['edit'] not in only]
    rows = sorted(keep + rows, key=lambda r: (r['edit'], r.get('property', '')))
json.dump(rows, open(bp, 'w'), indent=1)
print(f'benign edits: {len(rows)} runs, false alarms: {bad}')
sys.exit(1 if bad else 0)
