#!/usr/bin/env python3
"""mutest: run checks against a scratch copy of /repo with a change applied (never touches /repo).
usage: mutest.py (--patch FILE | --sed FILE 's/a/b/') PROP [PROP...]
Copies /repo (without target/ and .git) to /tmp/mutest-<pid>, applies the change, runs VERIF_REPO=<copy> ./check PROP, deletes the copy."""
import sys, os, subprocess, shutil, tempfile
args = sys.argv[1:]
d = tempfile.mkdtemp(prefix='mutest-', dir='/tmp')
try:
    subprocess.run(['rsync', '-a', '--exclude', 'target', '--exclude', '.git', '/repo/', d + '/'], check=True)
    if args[0] == '--patch':
        subprocess.run(['patch', '-p1', '-s', '-i', os.path.abspath(args[1])], cwd=d, check=True)
        props = args[2:]
    elif args[0] == '--sed':
        subprocess.run(['sed', '-i', args[2], os.path.join(d, args[1])], check=True)
        r = subprocess.run(['diff', '-u', os.path.join('/repo', args[1]), os.path.join(d, args[1])], capture_output=True, text=True)
        print(r.stdout[:1500] or 'NO CHANGE MADE')
        props = args[3:]
    env = dict(os.environ, VERIF_REPO=d, VERIF_GEN=d + '/.gen', VERIF_EVIDENCE_DIR=d + '/.evidence', VERIF_FINDINGS_DIR=d + '/.findings')
    for p in props:
        r = subprocess.run(['/verif/check', p], env=env, cwd='/verif', capture_output=True, text=True)
        print(r.stdout[-3000:], r.stderr[-1500:])
        print(f'== {p}: exit {r.returncode}')
finally:
    shutil.rmtree(d, ignore_errors=True)
    sys.path.insert(0, '/verif/tools'); import treecache; treecache.cleanup(d)
