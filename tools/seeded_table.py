#!/usr/bin/env python3
"""Print the markdown table of DESIGN.md section 10 from seeded/<id>/meta.json (agent's own description) and seeded/RESULTS.json."""
import os, json, glob, re
HERE = os.path.dirname(os.path.dirname(os.path.abspath(__file__)))
res = {r['change']: r for r in json.load(open(os.path.join(HERE, 'seeded', 'RESULTS.json')))}
def short(s, n=150):
    s = re.sub(r'\s+', ' ', str(s or '')).strip()
    return s if len(s) <= n else s[:n - 1] + '…'
rows = []
for d in sorted(glob.glob(os.path.join(HERE, 'seeded', 'C*-[0-9]*')), key=lambda p: (os.path.basename(p).split('-')[0], int(os.path.basename(p).split('-')[1]))):
    name = os.path.basename(d)
    m = json.load(open(os.path.join(d, 'meta.json'))) if os.path.exists(os.path.join(d, 'meta.json')) else {}
    a = m.get('agent_meta', m)
    site = a.get('site') or ''
    what = a.get('summary') or a.get('breaks') or ''
    r = res.get(name, {})
    ex = r.get('exit')
    det = r.get('detail', '')
    obs = [re.sub(r'^C\d\d-', '', x).replace('__', '::') for x in det.split(',') if x and not x.startswith('undecided')]
    proved = [o for o in obs if not o.startswith('N-')]
    bounded = [o for o in obs if o.startswith('N-')]
    if ex == 1:
        verdict = '**VIOLATION** ' + (', '.join(proved) if proved else '') + ((' + ' if proved else '') + 'bounded ' + ', '.join(bounded) if bounded else '')
        kind = 'contract' if proved else 'bounded only'
    elif ex == 0:
        verdict, kind = 'missed', 'missed'
    else:
        verdict, kind = f'undecided ({det})', 'undecided'
    rows.append((name, short(site, 70), short(what, 170), verdict, kind))
print('| change | site | what it breaks (agent\'s words, shortened) | result |')
print('|---|---|---|---|')
for n, s, w, v, k in rows:
    print(f'| {n} | `{s}` | {w} | {v} |')
from collections import Counter
c = Counter(k for *_, k in rows)
print()
print(f'{len(rows)} changes: {c["contract"]} caught by a deductive obligation (most of them also by a bounded search), {c["bounded only"]} by a bounded search only, {c["missed"]} missed, {c["undecided"]} undecided.')
