#!/usr/bin/env python3
"""Re-check the build-time mutation set (contracts/mutants.json): every mutant must make its unit stop verifying."""
import os, sys, json, subprocess, shutil, tempfile
HERE = os.path.dirname(os.path.dirname(os.path.abspath(__file__)))
sys.path.insert(0, os.path.join(HERE, 'tools'))


def run(units=None):
    import vx, run_verus
    muts = json.load(open(os.path.join(HERE, 'contracts', 'mutants.json')))['mutants']
    base_repo = vx.REPO
    out = []
    tmp = tempfile.mkdtemp(prefix='mutants-', dir='/tmp')
    try:
        for i, m in enumerate(muts):
            if units and m['unit'] not in units:
                continue
            shutil.rmtree(os.path.join(tmp, 'src'), ignore_errors=True)
            shutil.copytree(os.path.join(base_repo, 'src'), os.path.join(tmp, 'src'))
            f = os.path.join(tmp, m['file'])
            before = open(f).read()
            subprocess.run(['sed', '-i', m['sed'], f], check=True)
            changed = open(f).read() != before
            rec = {'unit': m['unit'], 'file': m['file'], 'sed': m['sed']}
            if not changed:
                rec['result'] = 'not-applied'   # the source text the mutant targets is gone: the mutant is stale, not a weakness
            else:
                vx.REPO = tmp
                gen = run_verus.GEN
                run_verus.GEN = os.path.join(tmp, '.gen')
                try:
                    r = run_verus.run_unit(os.path.join(HERE, 'contracts', m['unit'] + '.vc'), do_twins=False)
                finally:
                    vx.REPO = base_repo
                    run_verus.GEN = gen
                failed = [o['function'] for o in r['obligations'] if o['status'] == 'failed']
                rec['result'] = 'killed' if r['status'] == 'failed' and failed else ('undecided' if r['status'] == 'undecided' else 'survived')
                rec['failed_obligations'] = failed
                if r['status'] == 'undecided':
                    rec['notes'] = r['notes'][:1]
            out.append(rec)
    finally:
        shutil.rmtree(tmp, ignore_errors=True)
    return out


if __name__ == '__main__':
    res = run(set(sys.argv[1:]) or None)
    for r in res:
        print(r['result'], r['unit'], r['sed'][:90], r.get('failed_obligations', ''), r.get('notes', ''))
    from collections import Counter
    print(Counter(r['result'] for r in res))
