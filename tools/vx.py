#!/usr/bin/env python3
"""vx: Verus-on-extraction.

Reads a unit template (contracts/<unit>.vc), re-extracts the named fn items / statement ranges VERBATIM from
/repo's working tree, applies the fixed, listed token-level rewrites (R1..R12, DESIGN.md section 3), splices in the
contracts / loop invariants / ghost hints kept in the template, and returns the generated Verus file plus an
extraction report. Nothing here looks at line numbers of /repo: anchors are impl-header regex + fn name + regexes.

Template directives (all start with //@ at the beginning of a line):
  //@unit NAME                      //@serves C06 C13 ...
  //@fn FILE :: IMPL_REGEX :: FN_NAME [:: as NEWNAME]     extract a whole fn item
  //@range FILE :: IMPL_REGEX :: FN_NAME :: [after ]/START/ :: /END/ [:: exclusive]   extract a statement range (emitted in place;
                                    END line included unless `exclusive`)
     inside either block:
       //@sig <text>                replacement for the signature (up to the body's '{'); several lines allowed
       //@subst? /REGEX/ => REPL    same, but it is not an error if nothing matches (operator/binding-mode spellings)
       //@subst /REGEX/ => REPL     unit-specific token rewrite (R3 generic instantiation, receiver renames); recorded
       //@contract                  following lines = requires/ensures clauses placed between signature and body
       //@loop N                    following lines = invariant/decreases clauses for the N-th loop (0-based, textual order)
       //@loop? N                   same, but dropped silently when the body has no N-th loop any more
       //@after /REGEX/             following lines inserted after the (single) body line matching REGEX
       //@before /REGEX/ [#K]       following lines inserted before the (single, or K-th) body line matching REGEX
       //@no-twin                   no vacuity twin (trait-impl methods cannot get one: the contract is on the trait)
       //@prologue                  following lines inserted at the top of the fn body (used with //@sig to re-bind
                                    pattern parameters, which Verus does not accept in signatures)
       //@keep-panics               do not apply R12 in this block
       //@keep-minmax               do not apply R11 in this block (receiver is not an integer)
  //@end
  /*@body*/                         marker placed just before the body '{' of a template-written fn that must get
                                    a vacuity twin (extracted fns always get one)
"""
import re, sys, os, json, hashlib
sys.path.insert(0, os.path.dirname(__file__))
from rustscan import mask, find_fn, find_range, match_brace, line_of, AnchorError

REPO = os.environ.get('VERIF_REPO', '/repo')


class TemplateError(Exception):
    pass


# ---------------------------------------------------------------- global rewrites (the complete list)
def split_top_commas(s):
    parts, depth, cur = [], 0, ''
    for ch in s:
        if ch in '([{':
            depth += 1
        elif ch in ')]}':
            depth -= 1
        if ch == ',' and depth == 0:
            parts.append(cur); cur = ''
        else:
            cur += ch
    parts.append(cur)
    return parts


def rewrite_macro_calls(text, name, fn):
    """Replace NAME!( ... ) using fn(args_text) -> replacement (or None to keep). Returns (text, count)."""
    out, i, cnt = '', 0, 0
    pat = re.compile(r'\b' + name + r'!\s*\(')
    while True:
        m = pat.search(text, i)
        if not m:
            out += text[i:]
            break
        op = m.end() - 1
        cl = match_brace(mask(text), op)
        rep = fn(text[op + 1:cl])
        if rep is None:
            out += text[i:cl + 1]
        else:
            out += text[i:m.start()] + rep
            cnt += 1
        i = cl + 1
    return out, cnt


def apply_global_rewrites(text, keep_panics=False, keep_minmax=False):
    """Returns (new_text, {rule: count})."""
    counts = {}

    def bump(rule, n):
        if n:
            counts[rule] = counts.get(rule, 0) + n

    # R1 attributes and doc comments
    new = re.sub(r'(?m)^[ \t]*#\[[^\]\n]*\][ \t]*\n', '', text)
    bump('R1 attribute lines dropped', text.count('\n') - new.count('\n'))
    text = new
    new, n = re.subn(r'(?m)^[ \t]*///.*\n', '', text)
    bump('R1 doc-comment lines dropped', n); text = new
    # R2 async/await
    new, n = re.subn(r'\basync\s+fn\b', 'fn', text); bump('R2 async fn -> fn', n); text = new
    new, n = re.subn(r'\s*\.await\b', '', text); bump('R2 .await dropped', n); text = new
    # R6 logging statements
    new, n = re.subn(r'(?ms)^[ \t]*(?:tracing::)?(?:info|warn|debug|trace|error)!\s*\((?:[^()]|\([^()]*\))*\)\s*;[ \t]*\n', '', text)
    bump('R6 logging statements dropped', n); text = new
    # R4 assertions
    def aeq(args):
        p = split_top_commas(args)
        return f'assert!({p[0].strip()} == {p[1].strip()})'
    text, n = rewrite_macro_calls(text, 'assert_eq', aeq); bump('R4 assert_eq! -> assert!(a == b)', n)
    text, n = rewrite_macro_calls(text, 'debug_assert_eq', aeq); bump('R4 debug_assert_eq! -> assert!(a == b)', n)
    def ane(args):
        p = split_top_commas(args)
        return f'assert!({p[0].strip()} != {p[1].strip()})'
    text, n = rewrite_macro_calls(text, 'assert_ne', ane); bump('R4 assert_ne! -> assert!(a != b)', n)
    text, n = rewrite_macro_calls(text, 'debug_assert', lambda a: f'assert!({split_top_commas(a)[0].strip()})'); bump('R4 debug_assert! -> assert!', n)
    def amsg(args):
        p = split_top_commas(args)
        return f'assert!({p[0].strip()})' if len(p) > 1 else None
    text, n = rewrite_macro_calls(text, 'assert', amsg); bump('R4 assert!(c, msg) -> assert!(c)', n)
    # R7 unchecked reads
    new, n = re.subn(r'unsafe\s*\{\s*\*\s*([\w\.]+)\.get_unchecked\(([^()]*)\)\s*\}', r'\1[\2]', text)
    bump('R7 unsafe get_unchecked -> checked index', n); text = new
    # R8 constants
    for ty, w in (('u8', 1), ('i8', 1), ('u16', 2), ('i16', 2), ('u32', 4), ('i32', 4), ('f32', 4), ('u64', 8), ('i64', 8), ('f64', 8)):
        new, n = re.subn(r'(?:std|core)::mem::size_of::<' + ty + r'>\(\)', f'{w}usize', text)
        bump('R8 size_of constant', n); text = new
    # R11 integer max/min on simple receivers
    for op in (() if keep_minmax else ('max', 'min')):
        args = r'\((?:[^()]|\([^()]*\))*\)'
        # receiver: a path whose segments may be method calls (`a.b`, `data.len()`, `self.x.get(i)`), or a parenthesised expression
        new, n = re.subn(r'((?<![\w.])[\w]+(?:' + args + r')?(?:\.[\w]+(?:' + args + r')?)*|(?<![\w)])' + args + r')\.' + op + r'\((?!\))', r'v' + op + r'(\1, ', text)
        bump(f'R11 a.{op}(b) -> v{op}(a, b)', n); text = new
    # R13 closure parameter `_` (rejected by Verus) gets a name
    new, n = re.subn(r'\|\s*_\s*\|', '|_e|', text); bump('R13 closure |_| -> |_e|', n); text = new
    # R12 aborts
    if not keep_panics:
        for mac in ('panic', 'unreachable', 'todo', 'unimplemented'):
            text, n = rewrite_macro_calls(text, mac, lambda a: 'vpanic()'); bump(f'R12 {mac}! -> vpanic() [requires false]', n)
    return text, counts


# ---------------------------------------------------------------- loop contracts (R5)
LOOP_KW = re.compile(r'\b(for|while|loop)\b')


def attach_loops(body, loops, report, optional=frozenset()):
    """body: function/range body text. loops: {ordinal: clause_text}. Loops are numbered in textual order."""
    m = mask(body)
    pos = 0
    found = []
    for mm in LOOP_KW.finditer(m):
        kw = mm.group(1)
        # skip `for` in `impl ... for` / HRTB (not inside bodies) - bodies only contain loop `for`
        k = mm.end()
        pd = 0
        while k < len(m):
            ch = m[k]
            if ch in '([':
                pd += 1
            elif ch in ')]':
                pd -= 1
            elif ch == '{' and pd == 0:
                break
            elif ch == ';' and pd == 0:
                k = -1
                break
            k += 1
        if k < 0 or k >= len(m):
            continue
        found.append((mm.start(), mm.end(), kw, k))
    out = body
    for ordinal in sorted(loops, reverse=True):
        if ordinal >= len(found) and ordinal in optional:
            # `//@loop? N`: the loop contract is dropped with its loop (a body without the loop is still decided)
            loops = {k: v for k, v in loops.items() if k != ordinal}
            continue
        if ordinal >= len(found):
            raise AnchorError(f'loop ordinal {ordinal} not found (body has {len(found)} loops)')
    for ordinal in range(len(found) - 1, -1, -1):
        s, e, kw, ob = found[ordinal]
        if ordinal not in loops:
            continue
        clause = loops[ordinal].rstrip()
        head = out[s:ob]
        first = clause.lstrip().split('\n', 1)[0].strip()
        if kw == 'for' and first in ('as-while', 'as-while-ref'):
            # R5c: the standard desugaring of `for PAT in EXPR` over an indexable collection into an index loop
            # (needed where the body uses `continue`, which Verus does not accept in `for`): the index is bumped
            # at the top of the body, so `continue` cannot skip it.
            mm = re.match(r'^for\s+(.*?)\s+in\s+(.*?)\s*$', head, flags=re.S)
            if not mm:
                raise AnchorError('cannot desugar for-loop head: ' + head)
            pat, expr = mm.group(1), mm.group(2)
            idx = f'__i{ordinal}'
            rest = clause.lstrip().split('\n', 1)[1] if '\n' in clause.lstrip() else ''
            amp = '&' if first == 'as-while-ref' else ''
            expr_c = expr.lstrip('&').strip()
            pre = ''
            if not re.match(r'^[\w.]+$', expr_c):
                # the collection is an expression (a call): evaluated once, as the for-loop does
                pre = f'let __c{ordinal} = {expr_c};\n'
                expr_c = f'__c{ordinal}'
            # a loop label stays on the loop
            lab = re.search(r"('\w+:\s*)$", out[:s])
            label = ''
            if lab:
                label = lab.group(1)
                s = lab.start()
            new_head = (f'{pre}let mut {idx}: usize = 0;\n{label}while {idx} < {expr_c}.len()\n{rest}\n    decreases {expr_c}.len() - {idx}\n')
            body_open = f'{{\n let {pat} = {amp}{expr_c}[{idx}]; {idx} += 1;'
            out = out[:s] + new_head + body_open + out[ob + 1:]
            report['rewrites']['R5c for-loop desugared to an index loop'] = report['rewrites'].get('R5c for-loop desugared to an index loop', 0) + 1
            continue
        gname = 'it'
        if first.startswith('iter '):
            # the ghost iterator gets another name (the loop's own pattern variable is called `it`)
            gname = first.split()[1]
            clause = clause.lstrip().split('\n', 1)[1] if '\n' in clause.lstrip() else ''
        if kw == 'for':
            # `for PAT in EXPR` -> `for PAT in it: EXPR`
            head2, n = re.subn(r'^(for\s+.*?\s+in\s+)', r'\1' + gname + ': ', head, count=1, flags=re.S)
            if n != 1:
                raise AnchorError('cannot rewrite for-loop head: ' + head)
            head = head2
        out = out[:s] + head.rstrip() + '\n' + clause + '\n' + out[ob:]
        report['rewrites'][f'R5 loop contract attached ({kw})'] = report['rewrites'].get(f'R5 loop contract attached ({kw})', 0) + 1
    return out, len(found)


def unchain_lets(body, report):
    """R14: `if c1 && let P = e && c2 { B }` WITHOUT an else branch -> `if c1 { if let P = e { if c2 { B } } }`.
    Let-chains are outside what Verus accepts; for an else-less `if` the nesting is the chain's own evaluation order
    (left to right, short-circuit, bindings visible to the conjuncts to their right and to the block)."""
    n_done = 0
    pos = 0
    while True:
        m = mask(body)
        mm = re.compile(r'\bif\b').search(m, pos)
        if not mm:
            break
        pos = mm.end()
        # `else if` chains are left alone (the nesting would change which branch an outer else belongs to)
        if re.search(r'\belse\s*$', m[:mm.start()]):
            continue
        # the condition: up to the block's `{` at depth 0
        k, depth = mm.end(), 0
        while k < len(m):
            ch = m[k]
            if ch in '([':
                depth += 1
            elif ch in ')]':
                depth -= 1
            elif ch == '{' and depth == 0:
                break
            elif ch == ';' and depth == 0:
                k = -1
                break
            k += 1
        if k < 0 or k >= len(m):
            continue
        cond_m, cond = m[mm.end():k], body[mm.end():k]
        # split at top-level `&&`
        parts, d, last, i = [], 0, 0, 0
        while i < len(cond_m):
            ch = cond_m[i]
            if ch in '([{':
                d += 1
            elif ch in ')]}':
                d -= 1
            elif d == 0 and cond_m.startswith('&&', i):
                parts.append(cond[last:i]); last = i + 2; i += 1
            i += 1
        parts.append(cond[last:])
        parts = [x.strip() for x in parts]
        if len(parts) < 2 or not any(re.match(r'let\b', x) for x in parts):
            continue
        try:
            close = match_brace(m, k)
        except Exception:
            continue
        if re.match(r'\s*else\b', m[close + 1:]):
            continue    # with an else branch the chain cannot be nested: left as it is (Verus will reject it -> undecided)
        inner = body[k:close + 1]
        new = ''
        for x in parts[:-1]:
            new += f'if {x} {{ '
        new += f'if {parts[-1]} ' + inner + ' }' * (len(parts) - 1)
        body = body[:mm.start()] + new + body[close + 1:]
        n_done += 1
        pos = mm.start() + 2
    if n_done:
        report['rewrites']['R14 let-chain without else -> nested if'] = report['rewrites'].get('R14 let-chain without else -> nested if', 0) + n_done
    return body


def insert_hints(body, hints, report):
    """hints: list of (where, regex, text)."""
    lines = body.split('\n')
    for where, rx, text in hints:
        nth = None
        if isinstance(rx, tuple):
            rx, nth = rx
        hits = [i for i, ln in enumerate(lines) if re.search(rx, ln) and not ln.lstrip().startswith('//@') and not ln.startswith('/*ghost*/')]
        optional = where.endswith('?')
        where = where.rstrip('?')
        if optional and not hits:
            # a proof hint for one spelling of the body: without its anchor there is nothing to hint at
            report['rewrites']['R9 optional ghost hint skipped (anchor absent)'] = report['rewrites'].get('R9 optional ghost hint skipped (anchor absent)', 0) + 1
            continue
        if nth is not None:
            if nth >= len(hits):
                raise AnchorError(f'hint anchor /{rx}/ #{nth}: only {len(hits)} matches')
            i = hits[nth]
        elif len(hits) != 1:
            raise AnchorError(f'hint anchor /{rx}/ matched {len(hits)} lines')
        else:
            i = hits[0]
        ins = ['/*ghost*/ ' + t if t.strip() else t for t in text.rstrip('\n').split('\n')]
        if where == 'after':
            lines[i + 1:i + 1] = ins
        else:
            lines[i:i] = ins
        report['rewrites']['R9 ghost hint inserted'] = report['rewrites'].get('R9 ghost hint inserted', 0) + 1
    return '\n'.join(lines)


# ---------------------------------------------------------------- template processing
def parse_rx(s):
    s = s.strip()
    if not (s.startswith('/') and s.endswith('/')):
        raise TemplateError('expected /regex/: ' + s)
    return s[1:-1]


def process_block(kind, header, dirs, report):
    parts = [p.strip() for p in re.split(r'\s+::\s+', header)]
    file = parts[0]
    path = os.path.join(REPO, file)
    try:
        src = open(path).read()
    except OSError as e:
        raise AnchorError(f'cannot read {path}: {e}')
    m = mask(src)
    sig = '\n'.join(d[1] for d in dirs if d[0] == 'sig')
    substs = [(d[1], d[0] == 'subst?') for d in dirs if d[0] in ('subst', 'subst?')]
    contract = '\n'.join(d[2] for d in dirs if d[0] == 'contract')
    loops = {int(d[1]): d[2] for d in dirs if d[0] in ('loop', 'loop?')}
    optional_loops = {int(d[1]) for d in dirs if d[0] == 'loop?'}
    def parse_hint(a):
        mm = re.match(r'^(/.*/)\s+#(\d+)\s*$', a.strip())
        return (parse_rx(mm.group(1)), int(mm.group(2))) if mm else parse_rx(a)
    hints = [(d[0], parse_hint(d[1]), d[2]) for d in dirs if d[0] in ('after', 'before', 'after?', 'before?')]
    keep_panics = any(d[0] == 'keep-panics' for d in dirs)
    keep_minmax = any(d[0] == 'keep-minmax' for d in dirs)
    entry = {'kind': kind, 'file': file, 'rewrites': {}}
    if kind == 'fn':
        impl_rx, name = parts[1], parts[2]
        newname = None
        if len(parts) > 3 and parts[3].startswith('as '):
            newname = parts[3][3:].strip()
        f = find_fn(src, m, impl_rx, name)
        entry.update(anchor=f'{impl_rx} :: fn {name}', src_lines=[line_of(src, f['sig_start']), line_of(src, f['body_close'])])
        orig_sig = src[f['sig_start']:f['body_open']]
        body = src[f['body_open']:f['body_close'] + 1]
        entry['sha256'] = hashlib.sha256((orig_sig + body).encode()).hexdigest()[:16]
        entry['verbatim'] = orig_sig + body
        if sig:
            use_sig = sig
            entry['rewrites']['SIG signature replaced (types/generics instantiated, result named)'] = 1
            entry['orig_sig'] = ' '.join(orig_sig.split())
        else:
            use_sig = orig_sig.rstrip()
            use_sig, n = re.subn(r'^\s*pub(\([^)]*\))?\s+', '', use_sig); entry['rewrites']['R1 visibility dropped'] = n
            # name the result
            mm = re.search(r'->\s*(.+?)\s*(where\b.*)?$', use_sig, flags=re.S)
            if mm and not re.match(r'\(\s*\w+\s*:', mm.group(1)):
                use_sig = use_sig[:mm.start()] + '-> (r: ' + mm.group(1).strip() + ')' + (' ' + mm.group(2) if mm.group(2) else '')
                entry['rewrites']['SIG result named r'] = 1
        if newname:
            use_sig, n = re.subn(r'\bfn\s+' + re.escape(name) + r'\b', 'fn ' + newname, use_sig, count=1)
            entry['rewrites'][f'facet rename {name} -> {newname}'] = n
        fname = newname or name
    else:
        start_after = parts[3].startswith('after ')
        sspec = parts[3][6:] if start_after else parts[3]
        mo = re.match(r'^(/.*/)\s+#(\d+)\s*$', sspec)
        start_nth = int(mo.group(2)) if mo else None
        if mo:
            sspec = mo.group(1)
        impl_rx, name, srx, erx = parts[1], parts[2], parse_rx(sspec), parse_rx(parts[4])
        excl = len(parts) > 5 and parts[5] == 'exclusive'
        a, b = find_range(src, m, impl_rx, name, srx, erx, excl, start_after, start_nth)
        entry.update(anchor=f'{impl_rx} :: fn {name} :: /{srx}/../{erx}/', src_lines=[line_of(src, a), line_of(src, b)])
        body = src[a:b]
        entry['sha256'] = hashlib.sha256(body.encode()).hexdigest()[:16]
        entry['verbatim'] = body
        fname = None
    # rewrites on the body (and derived signature)
    body, counts = apply_global_rewrites(body, keep_panics, keep_minmax)
    if kind == 'fn' and not sig:
        use_sig, c2 = apply_global_rewrites(use_sig, keep_panics, keep_minmax)
        for k, v in c2.items():
            counts[k] = counts.get(k, 0) + v
    for k, v in counts.items():
        entry['rewrites'][k] = entry['rewrites'].get(k, 0) + v
    for s, optional in substs:
        mm = re.match(r'\s*/(.*)/\s*=>\s?(.*)$', s)
        if not mm:
            raise TemplateError('bad subst: ' + s)
        body, n = re.subn(mm.group(1), mm.group(2), body, flags=re.M)
        if kind == 'fn' and not sig:
            use_sig, n2 = re.subn(mm.group(1), mm.group(2), use_sig, flags=re.M); n += n2
        if n == 0 and not optional:
            raise AnchorError(f'subst /{mm.group(1)}/ matched nothing in {entry["anchor"]}')
        entry['rewrites'][f'R3/subst /{mm.group(1)}/ => {mm.group(2)}'] = n
    body = unchain_lets(body, entry)
    body = insert_hints(body, hints, entry)
    prologue = ''.join(d[2] for d in dirs if d[0] == 'prologue')
    if prologue and kind == 'fn':
        body = body[0] + '\n' + prologue + body[1:]
        entry['rewrites']['SIG pattern parameters bound by a prologue `let`'] = 1
    body, nloops = attach_loops(body, loops, entry, optional_loops)
    entry['loops'] = nloops
    entry['loops_with_contract'] = sorted(loops)
    if kind == 'fn':
        marker = '' if any(d[0] == 'no-twin' for d in dirs) else '/*@body*/ '
        text = use_sig.rstrip() + '\n' + contract.rstrip() + '\n' + marker + body + '\n'
        entry['fn'] = fname
        entry['contract'] = contract
    else:
        text = body + '\n'
    report['items'].append(entry)
    return text


def generate(template_path):
    """Returns (verus_text, report)."""
    tl = open(template_path).read().split('\n')
    report = {'template': template_path, 'items': [], 'unit': None, 'serves': [], 'replay': None}
    out = []
    i = 0
    while i < len(tl):
        ln = tl[i]
        if ln.startswith('//@unit'):
            report['unit'] = ln.split(None, 1)[1].strip(); i += 1; continue
        if ln.startswith('//@serves'):
            report['serves'] = ln.split()[1:]; i += 1; continue
        if ln.startswith('//@replay'):
            report['replay'] = ln.split(None, 1)[1].strip(); i += 1; continue
        if ln.startswith('//@expect'):
            # //@expect FILE :: /REGEX/ :: COUNT   - a textual assumption about code that is not extracted
            parts = [q.strip() for q in re.split(r'\s+::\s+', ln.split(None, 1)[1])]
            try:
                txt = open(os.path.join(REPO, parts[0])).read()
            except OSError as e:
                raise AnchorError(f'expect: cannot read {parts[0]}: {e}')
            n = len(re.findall(parse_rx(parts[1]), txt))
            if n != int(parts[2]):
                raise AnchorError(f'expect: /{parse_rx(parts[1])}/ occurs {n}x in {parts[0]}, expected {parts[2]} (an assumed, unextracted code fact changed)')
            report.setdefault('expects', []).append(f'{parts[0]}: /{parse_rx(parts[1])}/ x{parts[2]}')
            i += 1; continue
        if ln.startswith('//@contract-of'):
            # the contract text proved for FN in another unit, restated verbatim here as an assumption
            _, u2, f2 = ln.split()
            t2 = open(os.path.join(os.path.dirname(template_path), u2 + '.vc')).read()
            mm2 = re.search(r'(?ms)^//@fn [^\n]*::\s*' + re.escape(f2) + r'\b[^\n]*\n(.*?)^//@end', t2)
            if not mm2:
                raise TemplateError(f'contract-of: {f2} not found in {u2}')
            cm = re.search(r'(?ms)^//@contract\n(.*?)(?=^//@)', mm2.group(1) + '//@')
            out.append(cm.group(1))
            report.setdefault('imported_contracts', []).append(f'{u2}::{f2}')
            i += 1; continue
        if ln.startswith('//@include'):
            inc = os.path.join(os.path.dirname(template_path), ln.split(None, 1)[1].strip())
            out.append(open(inc).read())
            report.setdefault('includes', []).append(os.path.basename(inc))
            i += 1; continue
        mm = re.match(r'//@(fn|range)\s+(.*)$', ln)
        if mm:
            kind, header = mm.group(1), mm.group(2)
            dirs = []
            i += 1
            cur = None
            while True:
                if i >= len(tl):
                    raise TemplateError('unterminated //@' + kind)
                l2 = tl[i]
                if l2.startswith('//@end'):
                    i += 1
                    break
                d = re.match(r'//@([\w?-]+)\s*(.*)$', l2)
                if d:
                    key, arg = d.group(1), d.group(2)
                    if key in ('sig', 'subst', 'subst?', 'keep-panics', 'keep-minmax', 'no-twin'):
                        dirs.append([key, arg]); cur = None
                    elif key in ('contract', 'loop', 'loop?', 'after', 'before', 'after?', 'before?', 'prologue'):
                        cur = [key, arg, '']
                        dirs.append(cur)
                    else:
                        raise TemplateError('unknown directive ' + l2)
                else:
                    if cur is None:
                        if l2.strip():
                            raise TemplateError('stray text in block: ' + l2)
                    else:
                        cur[2] += l2 + '\n'
                i += 1
            out.append(process_block(kind, header, dirs, report))
            continue
        out.append(ln + '\n')
        i += 1
    text = ''.join(out)
    # (Verus does not allow invariant_except_break / loop ensures without isolation: units that use them keep the default)
    loop_clauses = re.findall(r'^//@loop[^\n]*\n((?:(?!//@)[^\n]*\n)*)', '\n'.join(tl) + '\n', flags=re.M)
    complex_inv = any(re.search(r'\b(ensures|invariant_except_break)\b', c) for c in loop_clauses)
    if '//@loop-isolation on' not in text and not complex_inv:
        # every loop sees the facts of its enclosing context about variables it does not modify (Verus' default isolates
        # loops): a harmless edit that hoists `x.len()` into a local before a loop then still verifies
        text = '#![verifier::loop_isolation(false)]\n' + text
        report['loop_isolation'] = False
    return text, report


# ---------------------------------------------------------------- vacuity twins
def add_twins(text):
    """For every fn whose body is marked /*@body*/, append a copy named <fn>__twin with `ensures false`.
    Returns (text_with_twins, [twin names])."""
    m = mask(text)
    twins = []
    inserts = []
    for mm in re.finditer(r'/\*@body\*/', text):
        ob = m.find('{', mm.end())
        cb = match_brace(m, ob)
        # nearest preceding fn keyword
        fk = None
        for f in re.finditer(r'\bfn\s+(\w+)', m[:mm.start()]):
            fk = f
        if fk is None:
            raise TemplateError('/*@body*/ without fn')
        name = fk.group(1)
        line_start = text.rfind('\n', 0, fk.start()) + 1
        # include attribute lines directly above (e.g. #[verifier::...])
        item_start = line_start
        while True:
            pe = item_start - 1
            if pe <= 0:
                break
            ps = text.rfind('\n', 0, pe) + 1
            if text[ps:pe].strip().startswith('#['):
                item_start = ps
            else:
                break
        header = text[item_start:mm.start()]
        hm = m[item_start:mm.start()]
        header2 = re.sub(r'\bfn\s+' + name + r'\b', f'fn {name}__twin', header, count=1)
        em = re.search(r'\bensures\b', mask(header2))
        if em:
            header2 = header2[:em.end()] + ' false,' + header2[em.end():]
        else:
            dm = re.search(r'\bdecreases\b', mask(header2))
            if dm:
                header2 = header2[:dm.start()] + 'ensures false,\n' + header2[dm.start():]
            else:
                header2 = header2.rstrip() + '\n    ensures false,\n'
        twin = '\n' + header2 + text[mm.end():cb + 1] + '\n'
        inserts.append((cb + 1, twin))
        twins.append(name + '__twin')
    for pos, tw in sorted(inserts, reverse=True):
        text = text[:pos] + tw + text[pos:]
    return text, twins


def write_extraction_md(report, path):
    L = [f"# EXTRACTION report — unit {report['unit']} (serves {' '.join(report['serves'])})", '',
         f"template: {report['template']}", '',
         'Every item below is cut verbatim from /repo at check time; the only differences between the verified text and',
         'the source are the rewrites counted here (rule names: DESIGN.md section 3).', '']
    for it in report['items']:
        L.append(f"## {it['kind']} {it['file']} :: {it['anchor']}  (lines {it['src_lines'][0]}-{it['src_lines'][1]}, sha256 {it['sha256']})")
        if it.get('orig_sig'):
            L.append(f"original signature: `{it['orig_sig']}`")
        L.append(f"loops in span: {it['loops']}, with contract: {it['loops_with_contract']}")
        for k, v in sorted(it['rewrites'].items()):
            if v:
                L.append(f"- {k}: {v}")
        L.append('')
    open(path, 'w').write('\n'.join(L) + '\n')


if __name__ == '__main__':
    text, rep = generate(sys.argv[1])
    if len(sys.argv) > 2 and sys.argv[2] == '--twins':
        text, tw = add_twins(text)
    sys.stdout.write(text)
