#!/usr/bin/env python3
"""Kani runner: compiles the real crate in place (cd $VERIF_REPO; cargo kani) and runs the registered harnesses.
One build per source-tree hash; results cached by (tree hash, harness); every tree under check has its own target
directory (treecache.py) and a file lock serialises cargo-kani runs on it."""
import os, sys, json, re, subprocess, time, hashlib, fcntl
sys.path.insert(0, os.path.dirname(os.path.abspath(__file__)))
import treecache
HERE = os.path.dirname(os.path.dirname(os.path.abspath(__file__)))
REPO = os.environ.get('VERIF_REPO', '/repo')
CACHE = os.environ.get('VERIF_KANI_CACHE', os.path.join(HERE, '.cache'))
REG = os.path.join(HERE, 'contracts', 'kani_units.json')
MODPATH = 'storage::secondary::verif_kani::'


def tree_hash():
    h = hashlib.sha256()
    for root, dirs, files in os.walk(os.path.join(REPO, 'src')):
        dirs.sort()
        for f in sorted(files):
            p = os.path.join(root, f)
            h.update(p[len(REPO):].encode())
            h.update(open(p, 'rb').read())
    for f in ('Cargo.toml', 'Cargo.lock'):
        try:
            h.update(open(os.path.join(REPO, f), 'rb').read())
        except OSError:
            pass
    return h.hexdigest()[:20]


def parse_output(out, names):
    """Split cargo-kani terse output per harness. Returns {name: {status, checks, failed, time, text}}."""
    res = {}
    # blocks start at 'Checking harness <path>...'
    parts = re.split(r'(?:Thread \d+: )?Checking harness ([\w:]+)\.\.\.', out)
    # parts = [pre, name1, body1, name2, body2...] but with -j bodies may interleave: terse output prints the result
    # block for a thread contiguous, prefixed with 'Thread N:'. Fall back to per-harness regexes on the whole text.
    for n in names:
        res[n] = {'status': 'missing', 'text': ''}
    # contiguous result blocks: "VERIFICATION RESULT: ... VERIFICATION:- X\nVerification Time: Ys"
    # With -j the harness name of a block is the most recent "Thread k: Checking harness" of that thread.
    thread_h = {}
    cur_thread = None
    lines = out.split('\n')
    block = []
    for ln in lines:
        m = re.match(r'Thread (\d+): Checking harness ([\w:]+)\.\.\.', ln)
        if m:
            thread_h[m.group(1)] = m.group(2).split('::')[-1]
            continue
        m = re.match(r'Checking harness ([\w:]+)\.\.\.', ln)
        if m:
            thread_h['0'] = m.group(1).split('::')[-1]
            cur_thread = '0'
            block = []
            continue
        m = re.match(r'Thread (\d+):\s*$', ln)
        if m:
            cur_thread = m.group(1)
            block = []
            continue
        block.append(ln)
        m = re.match(r'Verification Time: ([\d.]+)s', ln)
        if m and cur_thread in thread_h:
            name = thread_h[cur_thread]
            txt = '\n'.join(block)
            st = 'success' if 'VERIFICATION:- SUCCESSFUL' in txt else ('failed' if 'VERIFICATION:- FAILED' in txt else 'unknown')
            mm = re.search(r'\*\* (\d+) of (\d+) failed', txt)
            cov = re.search(r'\*\* (\d+) of (\d+) cover properties satisfied', txt)
            failed_checks = re.findall(r'Failed Checks: (.*)', txt)
            if name in res:
                res[name] = {'status': st, 'time_s': float(m.group(1)), 'checks': int(mm.group(2)) if mm else 0,
                             'failed_checks': int(mm.group(1)) if mm else 0, 'failed_desc': failed_checks[:10],
                             'covers': [int(cov.group(1)), int(cov.group(2))] if cov else None, 'text': txt[-3000:]}
            block = []
    return res


def run_harnesses(names, timeout_s=900, extra=None):
    os.makedirs(CACHE, exist_ok=True)
    th = tree_hash()
    rdir = os.path.join(CACHE, 'kani-results')
    os.makedirs(rdir, exist_ok=True)
    results, todo = {}, []
    for n in names:
        p = os.path.join(rdir, f'{th}-{n}.json')
        if os.path.exists(p) and not os.environ.get('VERIF_NO_CACHE'):
            results[n] = json.load(open(p)); results[n]['cached'] = True
        else:
            todo.append(n)
    cmd = None
    if todo:
        lock = open(os.path.join(CACHE, f'kani-{treecache.tag(REPO)}.lock'), 'w')
        fcntl.flock(lock, fcntl.LOCK_EX)
        try:
            cmd = ['cargo', 'kani', '--target-dir', treecache.dir_for('kani-target', REPO), '-Z', 'function-contracts', '-Z', 'stubbing',
                   '-Z', 'unstable-options', '--output-format', 'terse', '-j', '8', '--harness-timeout', '10m', '--exact']
            for n in todo:
                cmd += ['--harness', MODPATH + n]
            if extra:
                cmd += extra
            env = dict(os.environ, CARGO_NET_OFFLINE='true', RUSTFLAGS='--cfg tokio_unstable')
            t0 = time.time()
            try:
                p = subprocess.run(cmd, cwd=REPO, env=env, capture_output=True, text=True, timeout=timeout_s)
                out = p.stdout + '\n' + p.stderr
            except subprocess.TimeoutExpired as e:
                out = (e.stdout or b'').decode(errors='replace') + '\nTIMEOUT'
            wall = time.time() - t0
            parsed = parse_output(out, todo)
            compile_err = ('error: could not compile' in out) or ('error[E' in out)
            for n in todo:
                r = parsed.get(n, {'status': 'missing'})
                r['wall_share_s'] = round(wall / max(1, len(todo)), 1)
                if r['status'] in ('missing', 'unknown'):
                    r['status'] = 'undecided'
                    r['text'] = ('compile error: ' if compile_err else 'no result: ') + out[-2500:]
                else:
                    json.dump(r, open(os.path.join(rdir, f'{th}-{n}.json'), 'w'))
                r['cached'] = False
                results[n] = r
        finally:
            fcntl.flock(lock, fcntl.LOCK_UN)
    return results, (' '.join(cmd) if cmd else 'cached: cargo kani (see run_kani.py)'), th


def playback(name):
    """Re-run a failing harness with concrete playback and return the printed test (byte vectors per kani::any())."""
    cmd = ['cargo', 'kani', '--target-dir', treecache.dir_for('kani-target', REPO), '-Z', 'function-contracts', '-Z', 'stubbing',
           '-Z', 'concrete-playback', '--concrete-playback=print', '--exact', '--harness', MODPATH + name]
    env = dict(os.environ, CARGO_NET_OFFLINE='true', RUSTFLAGS='--cfg tokio_unstable')
    try:
        p = subprocess.run(cmd, cwd=REPO, env=env, capture_output=True, text=True, timeout=900)
    except subprocess.TimeoutExpired:
        return None
    out = p.stdout
    m = re.search(r'(?s)#\[test\]\s*fn kani_concrete_playback_.*?\n\}\n', out)
    if not m:
        return None
    test = m.group(0)
    vals = []
    for vm in re.finditer(r'// (-?[\w.]+)\s*\n\s*vec!\[([^\]]*)\]', test):
        vals.append({'decimal': vm.group(1), 'bytes': [int(x) for x in vm.group(2).split(',') if x.strip()]})
    return {'test': test, 'values': vals}


def run_for_property(prop, tier, seed):
    reg = json.load(open(REG))
    out = []
    units = [u for u in reg['units'] if prop in u['serves']]
    if not units:
        return out
    names = []
    for u in units:
        for h in u['harnesses']:
            if h.get('tier', 'quick') == 'quick' or tier == 'thorough':
                names.append(h['name'])
    t0 = time.time()
    results, cmd, th = run_harnesses(names)
    for u in units:
        res = {'unit': u['unit'], 'backend': 'kani/cbmc', 'status': 'ok', 'obligations': [], 'notes': [], 'solver_ms': 0.0,
               'checker_cmd': cmd, 'assumptions': u.get('assumptions', []), 'tree_hash': th,
               'functions_under_contract': [{'unit': u['unit'], 'engine': 'kani', 'function': f} for f in u['functions']]}
        for h in u['harnesses']:
            if h['name'] not in results:
                continue
            r = results[h['name']]
            ob = {'unit': u['unit'], 'function': h['name'], 'obligation': f"{u['unit']}::{h['name']}", 'backend': 'kani/cbmc',
                  'solver_ms': round(r.get('time_s', 0) * 1000, 1), 'checks': r.get('checks'), 'covers': r.get('covers'),
                  'cached': r.get('cached')}
            if h.get('bounded'):
                ob['bounded'] = h['bounded']
            if r['status'] == 'success':
                ob['status'] = 'discharged'
                cov = r.get('covers')
                if cov and cov[0] != cov[1]:
                    ob['status'] = 'undecided'
                    res['notes'].append(f"{h['name']}: cover unreachable ({cov[0]}/{cov[1]}) - vacuity guard")
                if not r.get('checks'):
                    ob['status'] = 'undecided'
                    res['notes'].append(f"{h['name']}: zero checks")
            elif r['status'] == 'failed':
                ob['status'] = 'failed'
                ob['detail'] = [{'message': 'kani: ' + d, 'clause': d} for d in r.get('failed_desc', [])] or [{'message': 'kani verification failed', 'clause': ''}]
                ob['detail'][0]['rendered'] = r.get('text', '')[-1500:]
                pb = playback(h['name'])
                if pb:
                    ob['counterexample'] = pb
                    try:
                        import replay_native
                        ob['native_replay'] = replay_native.replay_kani(h['name'], pb)
                    except Exception as e:
                        ob['native_replay'] = {'error': repr(e)}
            else:
                ob['status'] = 'undecided'
                res['notes'].append(f"{h['name']}: {r.get('text', '')[-600:]}")
            res['solver_ms'] += ob['solver_ms']
            res['obligations'].append(ob)
        if any(o['status'] == 'failed' for o in res['obligations']):
            res['status'] = 'failed'
        elif any(o['status'] == 'undecided' for o in res['obligations']):
            res['status'] = 'undecided'
        res['wall_s'] = round(time.time() - t0, 1)
        out.append(res)
    return out


if __name__ == '__main__':
    r = run_for_property(sys.argv[1], sys.argv[2] if len(sys.argv) > 2 else 'quick', 0)
    for u in r:
        print(u['unit'], u['status'], u['notes'])
        for o in u['obligations']:
            print('  ', o['function'], o['status'], o['solver_ms'], o.get('checks'), o.get('covers'), 'cached' if o.get('cached') else '')
            for d in o.get('detail', []):
                print('      ', d['message'])
