#!/usr/bin/env python3
"""Native replay: builds /verif/replay against the tree under check ($VERIF_REPO, feature verif_hooks) and runs
   search <unit>  - bounded enumeration of small structured inputs on the REAL functions (Verus gives no model)
   kani <harness> - the byte vectors of a Kani counterexample, natively."""
import os, sys, json, subprocess, shutil, time
HERE = os.path.dirname(os.path.dirname(os.path.abspath(__file__)))
REPO = os.environ.get('VERIF_REPO', '/repo')
CACHE = os.path.join(HERE, '.cache')
sys.path.insert(0, os.path.join(HERE, 'tools'))


def build():
    """Build the replay crate against the tree under check, in crate / target directories of that tree alone
    (see treecache.py: a shared target directory mixes up the libraries of different trees)."""
    import fcntl, treecache
    tag = treecache.tag(REPO)
    crate = treecache.dir_for('replay-crate', REPO)
    target = treecache.dir_for('replay-target', REPO)
    with open(os.path.join(treecache.CACHE, f'replay-{tag}.lock'), 'w') as lk:
        fcntl.flock(lk, fcntl.LOCK_EX)       # two checks of the SAME tree (e.g. C02 and C12 in parallel) share the build
        os.makedirs(os.path.join(crate, 'src'), exist_ok=True)
        toml = open(os.path.join(HERE, 'replay', 'Cargo.toml.in')).read().replace('@REPO@', REPO)
        if not os.path.exists(os.path.join(crate, 'Cargo.toml')) or open(os.path.join(crate, 'Cargo.toml')).read() != toml:
            open(os.path.join(crate, 'Cargo.toml'), 'w').write(toml)
        for f in os.listdir(os.path.join(HERE, 'replay', 'src')):
            dst = os.path.join(crate, 'src', f)
            new = open(os.path.join(HERE, 'replay', 'src', f)).read()
            if not os.path.exists(dst) or open(dst).read() != new:
                open(dst, 'w').write(new)
        for f in ('rust-toolchain', 'Cargo.lock'):
            src = os.path.join(REPO, f)
            if os.path.exists(src) and not (f == 'Cargo.lock' and os.path.exists(os.path.join(crate, f))):
                shutil.copy(src, os.path.join(crate, f))
        os.makedirs(os.path.join(crate, '.cargo'), exist_ok=True)
        open(os.path.join(crate, '.cargo', 'config.toml'), 'w').write("[build]\nrustflags = ['--cfg', 'tokio_unstable']\n[net]\noffline = true\n")
        env = dict(os.environ, CARGO_NET_OFFLINE='true', CARGO_TARGET_DIR=target)
        p = subprocess.run(['cargo', 'build', '--offline', '-q'], cwd=crate, env=env, capture_output=True, text=True, timeout=3600)
        if p.returncode != 0:
            raise RuntimeError('replay crate does not build: ' + p.stderr[-1500:])
    return os.path.join(target, 'debug', 'verif-replay')


def run(args, timeout=3600, env=None):
    exe = build()
    p = subprocess.run([exe] + args, capture_output=True, text=True, timeout=timeout, env=dict(os.environ, RUST_BACKTRACE='0', **(env or {})))
    last = [l for l in p.stdout.strip().split('\n') if l.startswith('{')]
    return json.loads(last[-1]) if last else {'error': (p.stdout + p.stderr)[-800:]}


def search(unit, ob=None, tier='quick', skip=None):
    """skip: SQL fragments of known findings (known_findings.json `native_skip`): still run, reported under known_failures"""
    t0 = time.time()
    r = run(['search', unit, '2' if tier == 'thorough' else '1'], env={'VERIF_NATIVE_SKIP': json.dumps(skip or [])})
    r['unit'] = unit
    r['wall_s'] = round(time.time() - t0, 1)
    r['how'] = 'bounded native enumeration on the real functions through risinglight::storage::verif_hooks (labelled bounded; a replay aid, never counted as proof)'
    return r


def replay_kani(harness, pb):
    vals = [v['bytes'] for v in pb.get('values', [])]
    r = run(['kani', harness, json.dumps(vals)])
    r['values'] = pb.get('values')
    return r


def rerun(rec):
    if rec.get('counterexample'):
        return replay_kani(rec['obligation'].split('::')[-1], rec['counterexample'])
    unit = (rec.get('native_replay') or {}).get('unit')
    if not unit:
        return {'found': False, 'note': 'no native replay recorded for this obligation'}
    # statements of recorded known findings are skipped, exactly as in the check itself
    try:
        kf = json.load(open(os.path.join(HERE, 'known_findings.json'))).get('findings', [])
        skip = [f for k in kf if k.get('status') == 'known' for f in k.get('native_skip', [])]
    except Exception:
        skip = []
    return search(unit, tier=rec.get('tier', 'quick'), skip=skip)


if __name__ == '__main__':
    print(json.dumps(search(sys.argv[1], tier=sys.argv[2] if len(sys.argv) > 2 else 'quick'), indent=1))
