#!/usr/bin/env python3
"""Print the prompt given to an independent mutant-writing sub-agent (property text + worktree only)."""
import json, sys
pid, wt = sys.argv[1], sys.argv[2]
p = [json.loads(l) for l in open('/verif/properties.jsonl') if json.loads(l)['id'] == pid][0]
print(f"""You are helping to evaluate a verification effort for RisingLight (an educational embedded OLAP SQL database in Rust: binder, egg-based optimizer, vectorized executor, columnar secondary storage). You have your own scratch git worktree of the repository at {wt} (a detached checkout; work ONLY inside it; never touch /repo or /verif, and do not read anything under /verif).

The property under study ({pid}: {p['title']}):
  {p['statement']}
  Quantification: {p['quantifier']['text']}

Your job: produce TWO different, independent source changes (at different sites / mechanisms) to the repository, each of which BREAKS this property while the crate still compiles and the existing test suite still passes. They should be realistic regressions a developer could plausibly introduce (an off-by-one, a dropped case, a reordered step, a missed boundary, two cooperating sites that each look fine alone) and they must need something SPECIFIC to manifest: an unusual input, a particular layout/boundary, a multi-step sequence of operations, a crash/fault/corruption at a particular point - NOT something that ordinary use or the existing tests would expose at once. Keep each change small (a few lines). Prefer changes in the core logic the property depends on (read the code under src/ first; the relevant areas for this property include: {', '.join(p['anchors']['files'][:12])}).

For each change deliver, under {wt}/_out/<n>/ (n = 1, 2):
  - patch.diff : `git diff` of the change against the worktree's HEAD (source files under src/ only; do not include the demonstration in it)
  - a demonstration: either a Rust test file (say where it must be placed, e.g. a new file under tests/ or a #[cfg(test)] module appended to a named source file; give it as demo.rs plus exact instructions in demo.md) or a small script driving the built CLI binary (target/debug/risinglight; `-f file.sql` runs a file; statements piped on stdin run one by one). The demonstration must FAIL with the change applied and PASS on the unchanged HEAD. Run it both ways and record the actual output in demo.md.
  - meta.json : {{"property": "{pid}", "summary": "...", "site": "file:function", "needs_to_manifest": "...", "commands_run": ["..."], "existing_tests": "passed/failed summary"}}

Practical facts:
  - No network. Always pass --offline to cargo (CARGO_NET_OFFLINE=true). Use the repo's own toolchain (rust-toolchain file). Use a target dir inside your worktree: export CARGO_TARGET_DIR={wt}/target . A cold build takes about 4-6 minutes; the machine is shared, so use `-j 4`.
  - Existing test suite: `cargo test --workspace --no-fail-fast --offline -j 4` (about 6 minutes). One test, storage::secondary::column::primitive_column_factory::tests::test_scan_dict_i32, already fails on the unchanged tree - ignore it. All the other tests must still pass with each of your changes (run the full suite with each change applied; sqllogictest-based tests under tests/ are part of it).
  - Apply only one change at a time (git stash / git checkout -- src between them). Leave the worktree's src/ clean (HEAD state) when you finish; your deliverables live in _out/.
  - If, while reading, you notice that the UNCHANGED code already violates the property for some input, do not use that as your change; mention it in your final report instead.
  - When finished delete {wt}/target to free disk space.

Final report (your reply): for each change, one paragraph: what it is, why it breaks the property, what it needs to manifest, and that you verified fail-with / pass-without / existing-tests-pass. Be factual; if you could not verify something say so.""")
