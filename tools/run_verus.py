#!/usr/bin/env python3
"""Run one Verus unit: extract from /repo -> verus (main file) + verus (vacuity twins file) -> obligation records.

Result dict:
  status: 'ok' | 'failed' (verifier verdicts against obligations) | 'undecided' (tool-side trouble)
  obligations: [{unit, function, obligation, backend, status, solver_ms, detail?}]
  vacuity: {twins: n, failing_as_required: n, vacuous: [names]}
  extraction: report from vx.generate
"""
import json, os, re, subprocess, sys, time, hashlib
sys.path.insert(0, os.path.dirname(__file__))
import vx
from rustscan import AnchorError

GEN = os.environ.get('VERIF_GEN', '/verif/.gen')
VERDICT_PATTERNS = [
    r'postcondition not satisfied', r'precondition not satisfied', r'invariant not satisfied',
    r'assertion failed', r'possible arithmetic (under|over)flow', r'possible division by zero',
    r'possible bit shift', r'decreases not satisfied', r'could not prove termination',
    r'loop invariant', r'cannot show invariant', r'failed precondition', r'unreachable',
    r'possible truncation', r'refinement', r'recommendation not met', r'unable to prove post-?condition of closure',
    r'unable to prove pre-?condition',
]
UNDECIDED_PATTERNS = [r'rlimit', r'Resource limit', r'timed? ?out', r'solver .*(crash|unknown)']


def run_verus(path, rlimit=None, seed=None, extra=None):
    cmd = ['verus', path, '--output-json', '--time', '--error-format=json', '--multiple-errors', '10']
    if rlimit:
        cmd += ['--rlimit', str(rlimit)]
    if seed is not None:
        cmd += ['--smt-option', f'random_seed={seed}']
    if extra:
        cmd += extra
    t0 = time.time()
    p = subprocess.run(cmd, capture_output=True, text=True, cwd=os.path.dirname(path))
    wall = time.time() - t0
    try:
        js = json.loads(p.stdout)
    except Exception:
        js = None
    diags = []
    for ln in p.stderr.split('\n'):
        ln = ln.strip()
        if ln.startswith('{'):
            try:
                d = json.loads(ln)
                diags.append(d)
            except Exception:
                pass
    return dict(cmd=' '.join(cmd), rc=p.returncode, json=js, diags=diags, wall=wall, stderr=p.stderr[-4000:])


def fn_table(text):
    """[(line_no, fn_name)] for each fn item in the generated text."""
    tab = []
    for i, ln in enumerate(text.split('\n'), 1):
        m = re.search(r'\bfn\s+(\w+)', ln)
        if m and not ln.lstrip().startswith('//'):
            tab.append((i, m.group(1)))
    return tab


def fn_at(tab, line):
    name = None
    for ln, n in tab:
        if ln <= line:
            name = n
        else:
            break
    return name


def classify(diag):
    msg = diag.get('message', '')
    if diag.get('level') != 'error':
        return None
    if msg.startswith('aborting due to'):
        return None
    for p in UNDECIDED_PATTERNS:
        if re.search(p, msg):
            return 'undecided'
    for p in VERDICT_PATTERNS:
        if re.search(p, msg):
            return 'verdict'
    return 'tool'


def breakdown(js):
    out = {}
    try:
        for mod in js['times-ms']['smt']['smt-run-module-times']:
            for f in mod.get('function-breakdown', []):
                name = f['function'].split('::')[-1]
                # impl methods look like  crate::impl&%0::name
                out.setdefault(name, {'ms': 0.0, 'success': True, 'mode': f.get('mode:', f.get('mode'))})
                out[name]['ms'] += f.get('time-micros', 0) / 1000.0
                out[name]['success'] = out[name]['success'] and bool(f.get('success'))
    except Exception:
        pass
    return out


def run_unit(template, rlimit=None, seed=None, do_twins=True):
    """One retry with a larger resource limit when the solver gave up (neither a proof nor a located failure): a changed
    body whose obligation is false often needs more than the default budget to be refuted."""
    res = _run_unit_once(template, rlimit, seed, do_twins)
    if rlimit is None and res.get('status') == 'undecided' and any(n.startswith('resource limit') for n in res.get('notes', [])):
        res2 = _run_unit_once(template, 60, seed, do_twins)
        res2.setdefault('notes', []).append('default resource limit exceeded; decided with --rlimit 60')
        return res2
    return res


def _run_unit_once(template, rlimit=None, seed=None, do_twins=True):
    os.makedirs(GEN, exist_ok=True)
    unit = os.path.basename(template)[:-3]
    res = {'unit': unit, 'backend': 'verus/z3', 'status': 'ok', 'obligations': [], 'vacuity': {}, 'notes': [],
           'solver_ms': 0.0, 'wall_s': 0.0, 'failures': []}
    t0 = time.time()
    try:
        text, rep = vx.generate(template)
    except AnchorError as e:
        res.update(status='undecided', notes=[f'anchor lost: {e}'])
        return res
    except vx.TemplateError as e:
        res.update(status='undecided', notes=[f'template error: {e}'])
        return res
    res['extraction'] = {'items': [{k: v for k, v in it.items() if k not in ('verbatim', 'contract')} for it in rep['items']]}
    res['serves'] = rep['serves']
    res['replay'] = rep['replay']
    tag = '' if seed is None else f'__seed{seed}'   # parallel seed runs must not share files
    main_path = os.path.join(GEN, unit.replace('-', '_') + tag + '.rs')
    open(main_path, 'w').write(text)
    vx.write_extraction_md(rep, os.path.join(GEN, unit + '.EXTRACTION.md'))
    # trusted base scan
    res['assumptions'] = scan_assumptions(text)
    r = run_verus(main_path, rlimit, seed)
    res['checker_cmd'] = r['cmd']
    tab = fn_table(text)
    lines = text.split('\n')
    if r['json'] is None:
        res.update(status='undecided', notes=['verus produced no JSON: ' + r['stderr'][-800:]])
        res['wall_s'] = time.time() - t0
        return res
    vr = r['json'].get('verification-results', {})
    bd = breakdown(r['json'])
    verdicts, tool_errs, undec = [], [], []
    for d in r['diags']:
        c = classify(d)
        if c == 'verdict':
            verdicts.append(d)
        elif c == 'tool':
            tool_errs.append(d)
        elif c == 'undecided':
            undec.append(d)
    if vr.get('encountered-vir-error') or tool_errs or (not bd and not vr.get('success')):
        msgs = [d.get('rendered', d.get('message', ''))[:600] for d in tool_errs[:3]]
        res.update(status='undecided', notes=['verus rejected the extracted text (construct outside the rewrite table, or type error): ' + ' | '.join(msgs)])
        res['wall_s'] = time.time() - t0
        return res
    failed_fns = {}
    for d in verdicts:
        prim = [s for s in d.get('spans', []) if s.get('is_primary')] or d.get('spans', [])
        line = prim[0]['line_start'] if prim else 0
        fn = fn_at(tab, line)
        clause = lines[line - 1].strip() if 0 < line <= len(lines) else ''
        # secondary span (e.g. failing call site / return point)
        sec = [s for s in d.get('spans', []) if not s.get('is_primary')]
        # a secondary span may point into vstd (e.g. the `requires` of Option::unwrap): keep only spans of the generated file
        here = prim[0].get('file_name') if prim else None
        sec = [s for s in sec if s.get('file_name') == here and 0 < s['line_start'] <= len(lines)]
        at = lines[sec[0]['line_start'] - 1].strip() if sec else ''
        # the function that failed is the one containing the *body* location when present
        body_fn = fn_at(tab, sec[0]['line_start']) if sec else fn
        if d['message'].startswith('postcondition') and sec:
            owner = body_fn
        elif d['message'].startswith('precondition') and sec:
            # primary = the call site? (verus: primary is the call, secondary the failed requires clause)
            owner = fn
        else:
            owner = fn
        failed_fns.setdefault(owner, []).append({'message': d['message'], 'clause': clause, 'at': at,
                                                 'rendered': d.get('rendered', '')[:1500]})
    for name, info in sorted(bd.items()):
        st = 'discharged' if info['success'] else 'failed'
        ob = {'unit': unit, 'function': name, 'obligation': f'{unit}::{name}', 'backend': 'verus/z3', 'mode': info['mode'],
              'status': st, 'solver_ms': round(info['ms'], 2)}
        if name in failed_fns:
            ob['status'] = 'failed'
            ob['detail'] = failed_fns[name]
        elif not info['success']:
            if undec:
                ob['status'] = 'undecided'
            ob['detail'] = [{'message': 'verus reports failure without a located diagnostic'}]
        res['obligations'].append(ob)
        res['solver_ms'] += info['ms']
    for name in failed_fns:
        if name not in bd:
            res['obligations'].append({'unit': unit, 'function': name, 'obligation': f'{unit}::{name}', 'backend': 'verus/z3',
                                       'status': 'failed', 'solver_ms': 0, 'detail': failed_fns[name]})
    if undec and not failed_fns:
        res['status'] = 'undecided'
        res['notes'].append('resource limit: ' + undec[0].get('message', ''))
    if any(o['status'] == 'failed' for o in res['obligations']):
        res['status'] = 'failed'
        res['failures'] = [o for o in res['obligations'] if o['status'] == 'failed']
    if not res['obligations']:
        res.update(status='undecided', notes=['zero obligations generated'])
    res['verus_summary'] = {k: vr.get(k) for k in ('verified', 'errors', 'success')}
    # ------------------------------------------------ vacuity twins
    if do_twins and res['status'] != 'undecided':
        ttext, twins = vx.add_twins(text)
        tpath = os.path.join(GEN, unit.replace('-', '_') + tag + '__twins.rs')
        open(tpath, 'w').write(ttext)
        rt = run_verus(tpath, rlimit, seed)
        vac = {'twins': len(twins), 'failing_as_required': 0, 'vacuous': [], 'cmd': rt['cmd']}
        if rt['json'] is None:
            vac['error'] = 'no json'
        else:
            bdt = breakdown(rt['json'])
            tool = [d for d in rt['diags'] if classify(d) == 'tool']
            if tool:
                vac['error'] = tool[0].get('message', '')[:300]
            for t in twins:
                if t in bdt and not bdt[t]['success']:
                    vac['failing_as_required'] += 1
                else:
                    vac['vacuous'].append(t)
        res['vacuity'] = vac
        if vac.get('error') or vac['vacuous']:
            if res['status'] == 'ok':
                res['status'] = 'undecided'
            res['notes'].append(f"vacuity guard: twins that did not fail: {vac['vacuous']} {vac.get('error', '')}")
    res['wall_s'] = round(time.time() - t0, 2)
    return res


def scan_assumptions(text):
    """Mechanical scan of the generated Verus text for everything that is assumed rather than proved."""
    out = []
    lines = text.split('\n')
    for i, ln in enumerate(lines):
        s = ln.strip()
        if s.startswith('//'):
            continue
        if 'external_body' in s or 'assume_specification' in s or re.search(r'\bassume\s*\(', s) or re.search(r'\badmit\s*\(', s) or 'uninterp spec fn' in s or 'external_type_specification' in s or '#[verifier::external' in s or 'broadcast axiom' in s or re.search(r'\baxiom fn\b', s):
            # attach the next fn name for context
            ctx = ''
            for j in range(i, min(i + 6, len(lines))):
                m = re.search(r'\bfn\s+(\w+)', lines[j])
                if m:
                    ctx = m.group(1)
                    break
            kind = ('external_body' if 'external_body' in s else 'assume_specification' if 'assume_specification' in s else
                    'assume' if 'assume' in s else 'admit' if 'admit' in s else 'uninterp' if 'uninterp' in s else 'axiom/external')
            out.append(f'{kind}: {ctx or s[:80]}')
    return out


if __name__ == '__main__':
    r = run_unit(sys.argv[1], do_twins='--no-twins' not in sys.argv)
    if '--json' in sys.argv:
        print(json.dumps(r, indent=1))
    else:
        print(r['status'], r['notes'], r.get('vacuity'))
        for o in r['obligations']:
            print(' ', o['function'], o['status'], o['solver_ms'])
            for d in o.get('detail', []):
                print('     ', d['message'], '|', d.get('clause'), '|', d.get('at'))
