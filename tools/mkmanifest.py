#!/usr/bin/env python3
"""Regenerate /verif/MANIFEST.json from the tables below (kept in one place so it stays schema-valid)."""
import json, os, subprocess
HERE = os.path.dirname(os.path.dirname(os.path.abspath(__file__)))

CLAIMED = {
 'C13': dict(
   text="Function-level proofs (Verus on verbatim-extracted code) along the whole push-down path: analyze_range is exact (Some((k,r)) iff the condition holds exactly for the keys in r); a range is pushed only for the primary key with bounds of the key's type, any other scan condition is evaluated by a filter on the scan output; the range refers to the primary-key column wherever it stands (block index searched, position in the scanned list); start_rowid never skips a row with key >= bound for every sparse index and key multiset; at row level a row stays visible iff it was visible and its key lies in the range, for every bound kind, and the scan ends early only when the first key of a batch is beyond the upper bound. RowSetIterator::new opens all column iterators of a seeked scan at the same start row; every RowSet gets the key range of the caller whatever the scan does to its own copy of the options. Bounded: N-sqlrange runs 79 predicates x 4 projections on 5 table shapes x layouts against a full-scan oracle. Partial: sortedness of a RowSet by its key and DataValue ordering within one type are assumptions.",
   note="Assumes: a RowSet is sorted by its key column (A-sortedrowset); DataValue's derived ordering is the value ordering within one type (A-dvorder); index entries record the key at their first row (U-finishblock); i32::decode is a function of the bytes; iterator-adapter searches replaced by contracted shims (A-position).",
   technique='Verus contracts + loop invariants on mechanically extracted functions / statement ranges (planner analysis, executor builder, start_rowid, RowSetIterator) + one bounded native SQL search', design='5 (C13), 4.1 U-startrow'),
 'C18': dict(
   text="Function-level proofs of the whole detection chain: checksum build/verify pair (accept iff stored == sum(type,data)); 16-byte block trailer codec and Column::decode_block_meta (Ok iff the trailer parses and the stored sum equals the sum over block[..len-12]); "
        "get_block: only intact blocks enter the cache, a corrupted uncached block errs on every read; ColumnIndex::from_bytes total and Ok iff long enough, magic, checksum over the entry bytes, count entries consume exactly those bytes; writer side (IndexBuilder, BlockIndexBuilder) agrees with the reader. "
        "crc32 is uninterpreted; one bounded Kani harness checks the trailer byte layout. Known finding: the checksum TYPE field is not protected (H13). an error of a column iterator leaves RowSetIterator::next_batch_inner as that error, never as end-of-RowSet; a BlockMeta decode that panics on an unknown tag is an obligation failure.",
   note="Assumes: crc32fast::hash deterministic (A-crc); moka cache inserts iff the loader returns Ok (A-moka); prost decode consumes one entry or errs (A-prost); async sequentialised.",
   technique="Verus contracts on extracted checksum / block-meta / get_block / index-footer functions + one bounded Kani layout harness", design='5 (C18), 4.3'),
}

CLAIMED.update({
 'C04': dict(
   text="Function-level proof of the one piece of crash logic that is a function of data: the record-replay loop of Manifest::replay, extracted verbatim. "
        "For every record stream: all readable => Ok(fold); first unreadable record is an EOF error (torn tail) => Ok with the fold of the readable prefix and truncation requested; "
        "any other decode error is reported. Lemmas over the fold: for every sequence of acknowledged transactions and every End-free partial tail the recovered operations are "
        "exactly the acknowledged ones (atomic, durable), and recovering again gives the same state. Also: Manifest::append writes Begin, entries, End (End last) in one write and fsyncs; commit publishes a snapshot only after the append succeeded; DROP TABLE is ONE drop-complete transaction; boot repairs every crash-reachable directory state; files a crash can leave behind (manifest.tmp.json, DV files) are opened create+truncate; boot apply loop as for C03. DropExecutor::execute hands all stored tables of one DROP statement to the storage in one operation. Partial: write ordering in commit, orphan files, directory creation, rename atomicity are not under contract.",
   note="Assumes A-serde (a byte prefix of concatenated JSON records yields the complete records then at most one EOF error; StreamDeserializer::byte_offset is the end of the last complete record), each append writes Begin..End with End last; file truncation I/O itself unverified; async sequentialised.",
   technique="Verus loop invariant on the extracted replay loop + inductive lemmas over the transaction log", design='5 (C04), 4.4 U-replay'),
 'C03': dict(
   text='Function-level proofs on the reopen path: replay of a cleanly written log yields exactly the acknowledged operations in order; the boot-time apply loop opens exactly adds minus deletes, re-logs DDL in order and restarts the id generators above every logged row-set id, DV id and DV-referenced row-set id; recovery always rewrites the manifest; delete-vector files load every record written; DROP TABLE is one drop-complete transaction; catalog id allocation (table-only histories re-derive the same ids; with views/indexes they do not: known finding H8, witness proved). Bounded: N-sqlhistory reopens inside sampled histories. Partial: file I/O, DiskRowset::open, vacuum, rewrite_changes, large files are not under contract.',
   note="Same assumptions as C04; catalog/DDL persistence of views, indexes and functions is a recorded known finding (H8) where listed.",
   technique='Verus contracts on extracted manifest replay, bootstrap apply, DV file, DROP TABLE and catalog id code + one bounded native history search', design='5 (C03), 4.4'),
})

CLAIMED.update({
 'C12': dict(
   text="Function-level proofs: LIMIT/OFFSET window arithmetic and TopN heap sizing for every (offset, limit), chunking and batch size; the merge heap, visible-row search and pick loop used by ordered scans (output in key order, visible rows only); the optimizer's order analysis only reports an order through order-keeping operators and is_orderby requires a prefix; the disk scan merges the RowSets by the key column whenever the optimizer assumes key order (never concatenates them). the TopN row loop keeps a choice of the offset+limit smallest rows seen (multiset invariant over an abstract max-heap), for every chunking. Bounded: N-sqlorder checks ORDER BY / LIMIT / OFFSET results on 3 table shapes x 1-3 RowSets x 4 layouts. Partial: the sort executor itself and the egg rules that consume the analysis are not under contract.",
   note='Assumes: limit/offset come from non-negative i64 constants (textual guard on executor/mod.rs); A-exec-order (which executors keep order), A-singlepk (binder rejects several PRIMARY KEY columns), A-cmp (comparator is a total preorder); yield/continue/break lines, the child stream and DataChunk::slice are not extracted.',
   technique='Verus contracts on statement ranges extracted from the LIMIT/TopN coroutines, MergeIterator, analyze_order and scan_inner + one bounded native SQL search', design='5 (C12), 4.5 U-limit/U-topncap'),
})

CLAIMED.update({
 'C02': dict(
   text='Function-level proofs: the aggregate step shared by hash and sort aggregation skips NULL for SUM/MIN/MAX/COUNT(x)/COUNT DISTINCT/FIRST and starts COUNT at 0, others at NULL; sort aggregation emits one row per maximal run of equal keys of the whole input, fed exactly that run (independent of chunking); the hash-join and semi-join probes never match a key containing NULL; the order analysis used to pick merge join / sort aggregation. the chunk-wise COUNT(DISTINCT) arm of Evaluator::eval_agg (ungrouped aggregation) adds exactly the non-NULL values of the chunk; Bounded: N-sqlagg, N-sqljoin, N-sqlexpr compare aggregates, all join kinds, IN/EXISTS and three-valued WHERE/SELECT expressions with oracles over small NULL-rich tables on both engines; ArrayImpl::sum by a bounded Kani harness. Three known findings (NOT IN, and-gt-lt-conflict, eq-trans). Partial: join coroutines as a whole, binder lowering, array kernels and egg rewrite rules are not under contract.',
   note="Assumes A-dvarith (DataValue +/min/max shimmed from the macro text over {Null,Bool,Int32,Int64}), A-hashset, A-egg (children precede parents); integer overflow and mixed variants are preconditions.",
   technique='Verus contracts on extracted aggregate step functions, SortAggExecutor::execute, hash-join probes, analyze_order + bounded native SQL searches + one bounded Kani harness', design='5 (C02), 4.5 U-aggstep'),
})

CLAIMED.update({
 'C06': dict(
   text="Function-level proofs, layer by layer: fixed-width value codecs round-trip for every value (Kani, in place, all 10 types; Interval sub-day part is a recorded known finding); RLE varint round-trips every u32; plain i32 block builder/iterator; nullable builder/decoder split, iterator cursor pairing and the append-not-replace validity of a batch; blob (varchar) blocks; RLE iterator/builder against expand(counts, values); dictionary builder/iterator; column scan loop returns consecutive rows at the reported row id; skip arithmetic; row-set fetch size never crosses a column's block; block index tiling and block_of_row. the three block-iterator factories put the right decoder tree on a block from its tag alone and tell every layer the right element count (rows / runs / dictionary entries); RowSetIterator::new opens every column iterator at the same start row. Bounded: N-column reads whole int/varchar columns built by the real builders under every encoding x nullability x small block sizes x start row x batch/skip pattern (~245k reads); N-charblock for fixed-width char blocks. Partial: builders' finish() write cursors and the column builders (Peekable adapters) are covered by the bounded search only.",
   note='Assumes: generic code verified at T=i32; BitVec modelled as Seq<bool> (A-bitvec); A-fw axioms backed by the Kani harnesses; rows per block fit usize.',
   technique='Kani loop-free harnesses in place (codecs) + Verus contracts on extracted block builders/iterators/array builders + bounded native column search', design='5 (C06), 4.1'),
 'C07': dict(
   text='Function-level proofs: the row address used by DELETE packs/unpacks exactly for every (rowset < 2^31, row) and is injective (Kani, in-place function contracts); the hidden row-handler column emits exactly the handles of the scanned rows; the merge heap, visible-row search and pick loop used by compaction/sorted scans; delete-vector bits survive the key-range filter; DV files load every record; boot restarts DV / row-set id generators above every logged id. RowSetIterator::new starts every column iterator, the row-handler column included, at the same row and gives the row-handler column the total row count of the RowSet. Bounded: N-sqlhistory checks DELETE counts and table contents after every step of sampled insert/delete/reopen histories. Partial (thin): DeleteVector::apply_to is outside both verifiers; compaction commit is I/O; compaction concurrent with DML is not covered.',
   note="Assumes rowset ids < 2^31 (precondition surfaced by the contract; ids are allocated from 0 by a counter).",
   technique='Kani function contracts in place + Verus contracts on extracted iterators + one bounded native history search', design='5 (C07), 4.1-4.2'),
})

NA = {
 'C01': "rewrite rules are egg pattern strings inside rw! macros plus e-class analyses; 'two plan terms have equal SQL results' is not expressible as a contract on a Rust function (would be proving a hand-written semantics = a model)",
 'C05': "whole-engine observational equivalence of two async trait implementations over statement histories; no single-call or single-structure contract states it",
 'C08': "epoch/vacuum safety lives in HashMap/retain/Arc::try_unwrap/Mutex code and Drop; quantifies over schedules; Verus rejects the text unrewritten, Kani ICEs on VersionManagerInner",
 'C09': "compactor vs DML interleavings: concurrency + histories; Kani has no threads, Verus would need a permission-typed re-implementation (a model)",
 'C10': "serialisability of concurrent sessions: schedules over the whole server",
 'C11': "plan-independence of join/aggregate results over all physical plans: the executors are #[try_stream] coroutines over DataChunk/BitVec/HashMap<Vec<DataValue>,_> and the plan choice is egg extraction; only pieces are under contract (aggregate step, sort aggregation, hash-join probes: reported under C02); CBMC needs >17 GB on a 2-row kernel",
 'C14': "kernels are generic iterator adapters + BitVec word tricks + std::simd behind macro_rules!; Verus rejects the text, Kani ran out of memory on a length-2 `or`",
 'C15': "error propagation through spawned tokio tasks and an async_broadcast channel: task/channel semantics, not a function contract",
 'C16': "static-type vs run-time-array agreement is an egg analysis <-> executor relation; the NOT NULL half reduces to a precondition of the non-nullable block builder whose callers (coroutines) cannot be put under contract",
 'C17': "optimizer termination / plan well-formedness over all programs: egg saturation + cost extraction",
 'C19': "Eq/Ord/Hash on DataValue are compiler-derived; print/parse round trips are chrono/rust_decimal/format! string code - outside both verifiers",
 'C20': "CSV export/import runs through the csv crate and per-type Display/FromStr: string formatting/parsing",
}
# claimed in DESIGN.md but not wired yet are listed here with that reason until their units exist
PENDING = {}


def main():
    hooks_commits = []
    try:
        out = subprocess.run(['git', '-C', '/repo', 'log', '--format=%H %s'], capture_output=True, text=True).stdout
        hooks_commits = [l.split()[0] for l in out.split('\n') if l and (' verif-hook:' in l or ' verif:' in l)]
    except Exception:
        pass
    checks = []
    for pid, c in sorted(CLAIMED.items()):
        checks.append({
            'property_id': pid,
            'quick_cmd': f'./check {pid} --tier quick',
            'thorough_cmd': f'./check {pid} --tier thorough',
            'evidence_file': f'/verif/evidence/{pid}.json',
            'replay_cmd_template': f'./check {pid} --replay {{path}}',
            'engine': 'contract-verus-kani',
            'level_claimed': {'category': 'proof', 'text': c['text'], 'design_ref': c['design']},
            'level_note': c['note'],
            'technique': c['technique'],
        })
    na = [{'property_id': k, 'reason': v} for k, v in sorted({**NA, **PENDING}.items()) if k not in CLAIMED]
    man = {
        'version': 1,
        'setup_cmd': './setup.sh',
        'hooks': {
            'guard': 'cfg(kani) for in-place contracts and harness modules (set only by cargo kani); cargo feature `verif_hooks` for native replay entry points',
            'enable': 'cargo kani sets cfg(kani); the native replay crate enables feature verif_hooks of the path dependency on /repo',
            'baseline_off_cmd': 'cd /repo && cargo nextest run --workspace --no-fail-fast --offline --test-threads 8',
            'source_commits': hooks_commits,
            'add_only': True,
        },
        'engines': [
            {'name': 'contract-verus-kani', 'path': '/verif/check', 'serves_properties': sorted(CLAIMED),
             'kind_free_text': 'contract-based deductive verification: Verus 0.2026.09.13 on functions/statement ranges extracted mechanically from /repo on every run (tools/vx.py, contracts/*.vc); Kani 0.68 function contracts and loop-free harnesses compiled in place from /repo; bounded native searches on the real database (contracts/native_units.json) as labelled stand-ins and replay source'},
        ],
        'checks': checks,
        'not_applicable': na,
        'notes': 'Exit codes: 0 held / 1 VIOLATION / 2 undecided (tool-side). known_findings.json lists recorded defects; see DESIGN.md.',
    }
    json.dump(man, open(os.path.join(HERE, 'MANIFEST.json'), 'w'), indent=1)


if __name__ == '__main__':
    main()
