#!/usr/bin/env python3
"""Regenerate /verif/MANIFEST.json from the tables below (kept in one place so it stays schema-valid)."""
import json, os, subprocess
HERE = os.path.dirname(os.path.dirname(os.path.abspath(__file__)))

CLAIMED = {
 'C13': dict(
   text="Function-level proof (Verus on the verbatim-extracted Int32 arm of DiskRowset::start_rowid): for every sparse first-key index, "
        "every sorted key column with duplicates and every lower bound, the seek position never skips a row with key >= bound. "
        "Also: the key-range bitmap is AND-ed with the delete-vector visibility and a row-set scan is ended only when the first row of a batch is past the upper bound (U-vismask); index-entry bookkeeping of finish_block. Partial: the computation of the in-range window over DataValue, the planner's range analysis and the column-position assumptions are not under contract.",
   note="Assumes: index entries record the key at their first row (writer side, U-finishblock), i32::decode is a function of the bytes, key column = storage column 0, key type Int32.",
   technique="Verus contracts + loop invariant on mechanically extracted statement range of start_rowid", design='5 (C13), 4.1 U-startrow'),
 'C18': dict(
   text="Function-level proofs of the whole detection chain: checksum build/verify pair (accept iff stored == sum(type,data)); 16-byte block trailer codec and Column::decode_block_meta (Ok iff the trailer parses and the stored sum equals the sum over block[..len-12]); "
        "get_block: only intact blocks enter the cache, a corrupted uncached block errs on every read; ColumnIndex::from_bytes total and Ok iff long enough, magic, checksum over the entry bytes, count entries consume exactly those bytes; writer side (IndexBuilder, BlockIndexBuilder) agrees with the reader. "
        "crc32 is uninterpreted; one bounded Kani harness checks the trailer byte layout. Known finding: the checksum TYPE field is not protected (H13).",
   note="Assumes: crc32fast::hash deterministic (A-crc); moka cache inserts iff the loader returns Ok (A-moka); prost decode consumes one entry or errs (A-prost); async sequentialised.",
   technique="Verus contracts on extracted checksum / block-meta / get_block / index-footer functions + one bounded Kani layout harness", design='5 (C18), 4.3'),
}

CLAIMED.update({
 'C04': dict(
   text="Function-level proof of the one piece of crash logic that is a function of data: the record-replay loop of Manifest::replay, extracted verbatim. "
        "For every record stream: all readable => Ok(fold); first unreadable record is an EOF error (torn tail) => Ok with the fold of the readable prefix and truncation requested; "
        "any other decode error is reported. Lemmas over the fold: for every sequence of acknowledged transactions and every End-free partial tail the recovered operations are "
        "exactly the acknowledged ones (atomic, durable), and recovering again gives the same state. Also: Manifest::append writes Begin, entries, End (End last) in one write and fsyncs; commit publishes a snapshot only after the append succeeded; DROP TABLE is ONE drop-complete transaction; boot repairs every crash-reachable directory state; files a crash can leave behind (manifest.tmp.json, DV files) are opened create+truncate; boot apply loop as for C03. Partial: write ordering in commit, orphan files, directory creation, rename atomicity are not under contract.",
   note="Assumes A-serde (a byte prefix of concatenated JSON records yields the complete records then at most one EOF error; StreamDeserializer::byte_offset is the end of the last complete record), each append writes Begin..End with End last; file truncation I/O itself unverified; async sequentialised.",
   technique="Verus loop invariant on the extracted replay loop + inductive lemmas over the transaction log", design='5 (C04), 4.4 U-replay'),
 'C03': dict(
   text="Function-level proofs on the reopen path: replay of a cleanly written log yields exactly the acknowledged operations in order; the boot-time apply loop opens exactly adds minus deletes, re-logs DDL in order and restarts the id generators above every logged row-set id, DV id and DV-referenced row-set id; "
        "delete-vector files load every record written; DROP TABLE is one drop-complete transaction; catalog id allocation (table-only histories re-derive the same ids; with views/indexes they do not: known finding H8, witness proved). "
        "Partial: file I/O, DiskRowset::open, vacuum, rewrite_changes are not under contract.",
   note="Same assumptions as C04; catalog/DDL persistence of views, indexes and functions is a recorded known finding (H8) where listed.",
   technique="Verus contracts on extracted manifest replay, bootstrap apply, DV file, DROP TABLE and catalog id code", design='5 (C03), 4.4'),
})

CLAIMED.update({
 'C12': dict(
   text="Function-level proofs on statement ranges extracted from the LIMIT and TopN coroutines: for every (offset, limit) the builder can pass, every chunking and every batch size, "
        "local row i of a batch is emitted iff its global position lies in [offset, offset+limit); the slice is in bounds; no underflow/overflow; the stop test never cuts a window row; "
        "TopN heap sizing cannot overflow, keeps offset+limit rows and never pre-allocates more than a window; the merge heap used by ordered scans keeps min-heap order and its multiset of entries (sift-up/sift-down proofs). Partial: ORDER BY/merge order and the planner's 'table is sorted by primary key' assumption are not under contract.",
   note="Assumes: limit/offset come from non-negative i64 constants (textual guard on executor/mod.rs); yield/continue/break lines, the child stream and DataChunk::slice are not extracted; allocation policy bound 2^32 rows.",
   technique="Verus contracts on statement ranges extracted from the LIMIT/TopN coroutines", design='5 (C12), 4.5 U-limit/U-topncap'),
})

CLAIMED.update({
 'C02': dict(
   text="Function-level proof of the aggregate *step* shared by hash and sort aggregation (Ext::add/or, Evaluator::agg_append, init_agg_state, AggState::result/into_result, extracted verbatim): "
        "for every state and every input value, SUM/MIN/MAX/COUNT(x)/COUNT(DISTINCT x)/FIRST skip NULL, COUNT-like aggregates start at 0 and the others at NULL. "
        "Partial (aggregates only): joins, binder lowering, 3VL kernels and the array-level eval_agg (ArrayImpl::sum over raw slots) are not under contract.",
   note="Assumes A-dvarith (DataValue +/min/max shimmed from the macro text over {Null,Bool,Int32,Int64}), A-hashset, A-egg (children precede parents); integer overflow and mixed variants are preconditions.",
   technique="Verus contracts on the extracted aggregate step functions", design='5 (C02), 4.5 U-aggstep'),
})

CLAIMED.update({
 'C06': dict(
   text="Function-level proofs, layer by layer: fixed-width value codecs round-trip for every value (Kani, in place, all 10 types; Interval sub-day part is a recorded known finding); "
        "RLE varint round-trips every u32; plain i32 block builder/iterator: bytes written are a function of the appended values and iteration from any position with any batch sizes returns exactly "
        "items[pos..pos+k] (Verus, extracted); nullable builder/decoder split and iterator cursor pairing; blob (varchar) blocks; RLE iterator/builder against expand(counts, values); dictionary builder/iterator; column scan loop returns consecutive rows at the reported row id; row-set fetch size never crosses a column's block; block index tiling and block_of_row. "
        "Partial: fixed-width char and vector blocks, builders' finish() write cursors, column builders (Peekable adapters) are not under contract.",
   note="Assumes: generic code verified at T=i32; bitvec copy statement in NullableBlockIterator::next_batch elided; A-fw axioms backed by the Kani harnesses; rows per block fit usize.",
   technique="Kani loop-free harnesses in place (codecs) + Verus contracts on extracted block builders/iterators", design='5 (C06), 4.1'),
 'C07': dict(
   text="Function-level proofs: the row address used by DELETE packs/unpacks exactly for every (rowset < 2^31, row) and is injective (Kani, in-place function contracts), so a delete can only address the row that was scanned; "
        "the hidden row-handler column emits exactly the handles of the scanned rows; the merge heap and visible-row search used by compaction/sorted scans are fully proved; DV files load every record; boot restarts DV / row-set id generators above every logged id. Partial (thin): DeleteVector::apply_to (bitvec iterator chain) is outside both verifiers; DV files, compaction commit and reopen are I/O.",
   note="Assumes rowset ids < 2^31 (precondition surfaced by the contract; ids are allocated from 0 by a counter).",
   technique="Kani function contracts in place + Verus contracts on extracted iterators", design='5 (C07), 4.1-4.2'),
})

NA = {
 'C01': "rewrite rules are egg pattern strings inside rw! macros plus e-class analyses; 'two plan terms have equal SQL results' is not expressible as a contract on a Rust function (would be proving a hand-written semantics = a model)",
 'C05': "whole-engine observational equivalence of two async trait implementations over statement histories; no single-call or single-structure contract states it",
 'C08': "epoch/vacuum safety lives in HashMap/retain/Arc::try_unwrap/Mutex code and Drop; quantifies over schedules; Verus rejects the text unrewritten, Kani ICEs on VersionManagerInner",
 'C09': "compactor vs DML interleavings: concurrency + histories; Kani has no threads, Verus would need a permission-typed re-implementation (a model)",
 'C10': "serialisability of concurrent sessions: schedules over the whole server",
 'C11': "join/aggregate executors are #[try_stream] coroutines over DataChunk/BitVec/HashMap<Vec<DataValue>,_>: not extractable verbatim; CBMC needs >17 GB on a 2-row kernel (only the shared aggregate step is covered, under C02)",
 'C14': "kernels are generic iterator adapters + BitVec word tricks + std::simd behind macro_rules!; Verus rejects the text, Kani ran out of memory on a length-2 `or`",
 'C15': "error propagation through spawned tokio tasks and an async_broadcast channel: task/channel semantics, not a function contract",
 'C16': "static-type vs run-time-array agreement is an egg analysis <-> executor relation; the NOT NULL half reduces to a precondition of the non-nullable block builder whose callers (coroutines) cannot be put under contract",
 'C17': "optimizer termination / plan well-formedness over all programs: egg saturation + cost extraction",
 'C19': "Eq/Ord/Hash on DataValue are compiler-derived; print/parse round trips are chrono/rust_decimal/format! string code - outside both verifiers",
 'C20': "CSV export/import runs through the csv crate and per-type Display/FromStr: string formatting/parsing",
}
# claimed in DESIGN.md but not wired yet are listed here with that reason until their units exist
PENDING = {}


def main():
    hooks_commits = []
    try:
        out = subprocess.run(['git', '-C', '/repo', 'log', '--format=%H %s'], capture_output=True, text=True).stdout
        hooks_commits = [l.split()[0] for l in out.split('\n') if l and (' verif-hook:' in l or ' verif:' in l)]
    except Exception:
        pass
    checks = []
    for pid, c in sorted(CLAIMED.items()):
        checks.append({
            'property_id': pid,
            'quick_cmd': f'./check {pid} --tier quick',
            'thorough_cmd': f'./check {pid} --tier thorough',
            'evidence_file': f'/verif/evidence/{pid}.json',
            'replay_cmd_template': f'./check {pid} --replay {{path}}',
            'engine': 'contract-verus-kani',
            'level_claimed': {'category': 'proof', 'text': c['text'], 'design_ref': c['design']},
            'level_note': c['note'],
            'technique': c['technique'],
        })
    na = [{'property_id': k, 'reason': v} for k, v in sorted({**NA, **PENDING}.items()) if k not in CLAIMED]
    man = {
        'version': 1,
        'setup_cmd': './setup.sh',
        'hooks': {
            'guard': 'cfg(kani) for in-place contracts and harness modules (set only by cargo kani); cargo feature `verif_hooks` for native replay entry points',
            'enable': 'cargo kani sets cfg(kani); the native replay crate enables feature verif_hooks of the path dependency on /repo',
            'baseline_off_cmd': 'cd /repo && cargo nextest run --workspace --no-fail-fast --offline --test-threads 8',
            'source_commits': hooks_commits,
            'add_only': True,
        },
        'engines': [
            {'name': 'contract-verus-kani', 'path': '/verif/check', 'serves_properties': sorted(CLAIMED),
             'kind_free_text': 'contract-based deductive verification: Verus 0.2026.09.13 on functions/statement ranges extracted mechanically from /repo on every run (tools/vx.py, contracts/*.vc); Kani 0.68 function contracts and loop-free harnesses compiled in place from /repo'},
        ],
        'checks': checks,
        'not_applicable': na,
        'notes': 'Exit codes: 0 held / 1 VIOLATION / 2 undecided (tool-side). known_findings.json lists recorded defects; see DESIGN.md.',
    }
    json.dump(man, open(os.path.join(HERE, 'MANIFEST.json'), 'w'), indent=1)


if __name__ == '__main__':
    main()
