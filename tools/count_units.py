#!/usr/bin/env python3
"""Run every Verus unit once on /repo (no vacuity twins) and print the totals quoted in DESIGN.md section 0."""
import os, sys, glob, json, concurrent.futures as cf
HERE = os.path.dirname(os.path.dirname(os.path.abspath(__file__)))
sys.path.insert(0, os.path.join(HERE, 'tools'))
import run_verus
units = sorted(glob.glob(os.path.join(HERE, 'contracts', '*.vc')))
def one(u):
    r = run_verus.run_unit(u, do_twins=False)
    return os.path.basename(u)[:-3], r['status'], [(o['function'], o['status']) for o in r['obligations']]
tot = {'units': 0, 'obligations': 0, 'discharged': 0, 'failed': 0, 'undecided_units': 0}
failed = []
with cf.ThreadPoolExecutor(max_workers=12) as ex:
    for name, st, obs in ex.map(one, units):
        tot['units'] += 1
        tot['obligations'] += len(obs)
        tot['discharged'] += sum(1 for _, s in obs if s == 'discharged')
        tot['failed'] += sum(1 for _, s in obs if s == 'failed')
        failed += [f'{name}::{f}' for f, s in obs if s == 'failed']
        if st == 'undecided':
            tot['undecided_units'] += 1
print(json.dumps(tot), failed)
