#!/usr/bin/env python3
"""Normalise seeded/<id>/meta.json: which property it breaks, what it needs to manifest, who wrote it, what was run to
confirm it (confirm.json, written by confirm_seeded.py) and what the checks say about it (RESULTS.json)."""
import os, json, glob
HERE = os.path.dirname(os.path.dirname(os.path.abspath(__file__)))
res = {r['change']: r for r in json.load(open(os.path.join(HERE, 'seeded', 'RESULTS.json')))}
for d in sorted(glob.glob(os.path.join(HERE, 'seeded', 'C*-[0-9]*'))):
    name = os.path.basename(d)
    mp = os.path.join(d, 'meta.json')
    m = json.load(open(mp)) if os.path.exists(mp) else {}
    agent = m.get('agent_meta', {k: v for k, v in m.items()})
    conf = json.load(open(os.path.join(d, 'confirm.json'))) if os.path.exists(os.path.join(d, 'confirm.json')) else None
    out = {
        'id': name,
        'property': name.split('-')[0],
        'breaks': agent.get('summary'),
        'site': agent.get('site'),
        'needs_to_manifest': agent.get('needs_to_manifest'),
        'written_by': 'independent sub-agent given only the property text and a scratch git worktree of /repo (nothing from /verif)',
        'files': sorted(os.listdir(d)),
        'what_was_run_to_confirm': None if not conf else {
            'tool': 'tools/confirm_seeded.py in a scratch worktree at /repo HEAD ' + conf.get('repo_head', ''),
            'demo_cmd': conf.get('demo_cmd'),
            'demo_without_change': 'passes (rc %s)' % conf['without_change']['rc'],
            'demo_with_change': 'fails (rc %s)' % conf.get('with_change', {}).get('rc'),
            'existing_suite_with_change': conf.get('suite_with_change', {}).get('summary'),
            'confirmed': conf.get('confirmed'),
        },
        'check_result': None if name not in res else {
            'cmd': f"tools/seeded_run.py {name}  (applies patch.diff to a scratch copy of /repo, runs ./check {name.split('-')[0]})",
            'exit': res[name]['exit'],
            'detail': res[name]['detail'],
            'verdict': {0: 'missed', 1: 'VIOLATION reported', 2: 'undecided (tool limit)'}.get(res[name]['exit'], str(res[name]['exit'])),
        },
        'agent_meta': agent,
    }
    json.dump(out, open(mp, 'w'), indent=1)
    print(name, out['check_result'] and out['check_result']['verdict'], '| confirmed:', conf and conf.get('confirmed'))
