#!/usr/bin/env python3
"""Independent confirmation of each seeded change in a scratch git worktree of /repo (never /repo itself):
 demo passes without the change, fails with it, and the existing suite still passes with it.
Writes seeded/<id>/confirm.json. Usage: confirm_seeded.py [ids...]"""
import os, sys, glob, json, subprocess, shutil, re, time
HERE = os.path.dirname(os.path.dirname(os.path.abspath(__file__)))
WT = os.environ.get('CONFIRM_WT', '/tmp/wt-confirm')
ENV = dict(os.environ, CARGO_TARGET_DIR=WT + '/target', CARGO_NET_OFFLINE='true', RUST_BACKTRACE='0')

def sh(cmd, **kw):
    return subprocess.run(cmd, shell=True, cwd=WT, env=ENV, capture_output=True, text=True, **kw)

def setup():
    if not os.path.exists(WT):
        subprocess.run(['git', '-C', '/repo', 'worktree', 'add', '-q', '--detach', WT, 'HEAD'], check=True)
        subprocess.run(['cp', '-r', '/repo/target', WT + '/target'])
    else:
        sh('git checkout -q --detach $(git -C /repo rev-parse HEAD) && git checkout -- . && git clean -fdq -e target')

def place_demo(d, name):
    build = 'cargo build --offline -j 8 --bin risinglight'
    if os.path.exists(os.path.join(d, 'demo.sh')):
        txt = open(os.path.join(d, 'demo.sh')).read()
        m = re.search(r'_out/(\d+)/', txt)
        if m:
            # written to run from the worktree root with its files under _out/<n>/
            dst = os.path.join(WT, '_out', m.group(1))
            shutil.rmtree(dst, ignore_errors=True)
            shutil.copytree(d, dst)
            return f'{build} && sh _out/{m.group(1)}/demo.sh', lambda: shutil.rmtree(os.path.join(WT, '_out'), ignore_errors=True)
        # a shell demonstration that drives the CLI binary (argument 1 = the binary)
        return f'{build} && bash {d}/demo.sh {WT}/target/debug/risinglight', lambda: None
    if os.path.exists(os.path.join(d, 'demo.py')) and not os.path.exists(os.path.join(d, 'demo.sh')):
        return f'{build} && python3 {d}/demo.py {WT}/target/debug/risinglight', lambda: None
    if os.path.exists(os.path.join(d, 'run_demo.sh')):
        return f'{build} && BIN={WT}/target/debug/risinglight sh {d}/run_demo.sh', lambda: None
    if not os.path.exists(os.path.join(d, 'demo.rs')) and os.path.exists(os.path.join(d, 'demo.slt')):
        # a sqllogictest script for the CLI on a fresh on-disk database
        return f'{build} && rm -rf {WT}/_demo_db && {WT}/target/debug/risinglight {WT}/_demo_db -f {d}/demo.slt', lambda: shutil.rmtree(os.path.join(WT, '_demo_db'), ignore_errors=True)
    demo = open(os.path.join(d, 'demo.rs')).read()
    m = re.search(r'(src/\S+?\.rs)', '\n'.join(demo.split('\n')[:6]))
    if (name.startswith('C06') or int(name.split('-')[1]) >= 17) and m and 'append' in '\n'.join(demo.split('\n')[:6]).lower() and name not in ('C06-1', 'C06-2', 'C06-3', 'C06-4', 'C06-5', 'C06-6'):
        target, filt = m.group(1), re.search(r'^mod (\w+)', demo, flags=re.M).group(1)
        open(os.path.join(WT, target), 'a').write('\n' + demo)
        return f'cargo test --offline -j 8 --lib {filt}', lambda: sh(f'git checkout -- {target}')
    if name in ('C06-1', 'C06-2', 'C06-3', 'C06-4', 'C06-5', 'C06-6'):
        # the C06 demos are #[cfg(test)] modules appended to a source file named in their demo.md
        target, filt = {'C06-1': ('src/storage/secondary/block.rs', 'c06_demo_1'), 'C06-2': ('src/storage/secondary/block.rs', 'c06_demo_2'),
                        'C06-3': ('src/storage/secondary/block/char_block_iterator.rs', 'c06_full_width'),
                        'C06-4': ('src/storage/secondary/block/rle_block_iterator.rs', 'c06_rle'),
                        'C06-5': ('src/storage/secondary/column/concrete_column_iterator.rs', 'c06_demo_consecutive_skips'),
                        'C06-6': ('src/storage/secondary/column/primitive_column_builder.rs', 'c06_demo_nullable_rle_roundtrip')}[name]
        p = os.path.join(WT, target)
        open(p, 'a').write('\n' + demo)
        return f'cargo test --offline -j 8 --lib {filt}', lambda: sh(f'git checkout -- {target}')
    t = 'seeded_' + name.replace('-', '_').lower()
    open(os.path.join(WT, 'tests', t + '.rs'), 'w').write(demo)
    feat = ' --features verif_hooks' if 'verif_' in demo else ''
    return f'cargo test --offline -j 8{feat} --test {t}', lambda: os.remove(os.path.join(WT, 'tests', t + '.rs'))

def summarize(r):
    m = re.findall(r'test result: (\w+)\. (\d+) passed; (\d+) failed', r.stdout + r.stderr)
    return {'rc': r.returncode, 'results': m, 'tail': (r.stdout + r.stderr)[-1200:]}

def main():
    ids = sys.argv[1:] or [os.path.basename(d) for d in sorted(glob.glob(os.path.join(HERE, 'seeded', 'C*-[0-9]*')))]
    setup()
    for name in ids:
        d = os.path.join(HERE, 'seeded', name)
        t0 = time.time()
        rec = {'change': name, 'repo_head': subprocess.run(['git', '-C', '/repo', 'rev-parse', '--short', 'HEAD'], capture_output=True, text=True).stdout.strip()}
        sh('git checkout -- . && git clean -fdq -e target')
        cmd, undo = place_demo(d, name)
        rec['demo_cmd'] = cmd
        r0 = sh(cmd, timeout=3000)
        rec['without_change'] = summarize(r0)
        ap = sh(f'git apply {d}/patch.diff')
        rec['patch_applies'] = ap.returncode == 0
        if ap.returncode != 0:
            rec['patch_error'] = ap.stderr[-400:]
        else:
            r1 = sh(cmd, timeout=3000)
            rec['with_change'] = summarize(r1)
            undo()
            rs = sh('cargo nextest run --workspace --no-fail-fast --offline --test-threads 8', timeout=6000)
            m = re.search(r'Summary \[.*?\] (\d+) tests run: (\d+) passed(?:, (\d+) failed)?', rs.stdout + rs.stderr)
            failed = re.findall(r'^\s+FAIL \[.*?\] (.*)$', rs.stdout + rs.stderr, flags=re.M)
            rec['suite_with_change'] = {'rc': rs.returncode, 'summary': m.group(0) if m else (rs.stdout + rs.stderr)[-600:], 'failed': sorted(set(failed))[:10]}
        sh('git checkout -- . && git clean -fdq -e target')
        rec['confirmed'] = bool(rec.get('patch_applies') and rec['without_change']['rc'] == 0 and rec.get('with_change', {}).get('rc', 0) != 0
                                and rec.get('suite_with_change', {}).get('rc') == 0)
        rec['wall_s'] = round(time.time() - t0)
        json.dump(rec, open(os.path.join(d, 'confirm.json'), 'w'), indent=1)
        print(name, 'confirmed' if rec['confirmed'] else 'NOT CONFIRMED', rec['without_change']['rc'], rec.get('with_change', {}).get('rc'), rec.get('suite_with_change', {}).get('summary'), flush=True)

if __name__ == '__main__':
    main()
