#!/usr/bin/env python3
"""Run the registered checks against every seeded change in /verif/seeded/<Cxx>-<n>/patch.diff on a scratch copy of
/repo (never /repo itself) and print one line per change: exit code and the failing obligation."""
import os, sys, glob, json, subprocess, shutil, tempfile, re
HERE = os.path.dirname(os.path.dirname(os.path.abspath(__file__)))
only = sys.argv[1:]
rows = []
for d in sorted(glob.glob(os.path.join(HERE, 'seeded', 'C*-[0-9]*'))):
    name = os.path.basename(d)
    if only and name not in only:
        continue
    prop = name.split('-')[0]
    patch = os.path.join(d, 'patch.diff')
    tmp = tempfile.mkdtemp(prefix='seeded-', dir='/tmp')
    try:
        subprocess.run(['rsync', '-a', '--exclude', 'target', '--exclude', '.git', '/repo/', tmp + '/'], check=True)
        ap = subprocess.run(['patch', '-p1', '-s', '-i', patch], cwd=tmp, capture_output=True, text=True)
        if ap.returncode != 0:
            rows.append((name, 'patch-failed', ap.stdout[-300:])); print(rows[-1]); continue
        env = dict(os.environ, VERIF_REPO=tmp, VERIF_GEN=tmp + '/.gen', VERIF_EVIDENCE_DIR=tmp + '/.evidence', VERIF_FINDINGS_DIR=tmp + '/.findings')
        r = subprocess.run([os.path.join(HERE, 'check'), prop], env=env, cwd=HERE, capture_output=True, text=True)
        viol = re.findall(r'VIOLATION property=\S+ replay=\S*/(\S+?)\.json', r.stdout)
        und = re.findall(r'UNDECIDED property=\S+ unit=(\S+?):', r.stdout)
        rows.append((name, r.returncode, ','.join(viol) or ('undecided:' + ','.join(und) if und else '')))
        print(rows[-1], flush=True)
    finally:
        shutil.rmtree(tmp, ignore_errors=True)
        sys.path.insert(0, os.path.join(HERE, 'tools')); import treecache; treecache.cleanup(tmp)   # per-tree build dirs of the scratch copy
rp = os.path.join(HERE, 'seeded', 'RESULTS.json')
old = {r['change']: r for r in (json.load(open(rp)) if os.path.exists(rp) else [])}
for a, b, c in rows:
    old[a] = {'change': a, 'exit': b, 'detail': c, 'repo_head': subprocess.run(['git', '-C', '/repo', 'rev-parse', '--short', 'HEAD'], capture_output=True, text=True).stdout.strip()}
json.dump([old[k] for k in sorted(old)], open(rp, 'w'), indent=1)
