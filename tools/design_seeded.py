#!/usr/bin/env python3
"""Regenerate the table of DESIGN.md section 10 (from `| change | site |` through the `N changes:` summary line) with
tools/seeded_table.py's output."""
import os, re, subprocess
HERE = os.path.dirname(os.path.dirname(os.path.abspath(__file__)))
tab = subprocess.run(['python3', os.path.join(HERE, 'tools', 'seeded_table.py')], capture_output=True, text=True, check=True).stdout.rstrip('\n')
p = os.path.join(HERE, 'DESIGN.md')
d = open(p).read()
m = re.search(r"^\| change \| site \|.*?^\d+ changes:[^\n]*\n", d, flags=re.S | re.M)
assert m, 'table not found'
d = d[:m.start()] + tab + '\n' + d[m.end():]
open(p, 'w').write(d)
print(tab.split('\n')[-1])
