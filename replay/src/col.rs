//! Column-level bounded search (property C06): real columns built by RowsetBuilder / the column builders and read back
//! through ColumnIteratorImpl (`verif_hooks::column_read`), for every encoding x nullability x value type, small block
//! sizes (several blocks per column), every start row and a family of batch-size / skip patterns.
use risinglight::storage::verif_hooks::{self as h, ColumnRead};
use serde_json::{Value, json};

fn check(items: &[Option<i32>], start: usize, steps: &[ColumnRead], out: &[(u32, Vec<Option<i32>>)]) -> Result<(), String> {
    let n = items.len();
    let mut p = start;
    let mut oi = 0;
    for s in steps {
        match s {
            ColumnRead::Skip(c) => p += c,
            ColumnRead::Batch(k) => {
                if p >= n {
                    // nothing left: a batch may only be absent
                    continue;
                }
                let Some((row_id, vals)) = out.get(oi) else { return Err(format!("rows {p}..{n} were never returned")); };
                oi += 1;
                if *row_id as usize != p { return Err(format!("batch reports row id {row_id}, expected {p}")); }
                if vals.is_empty() { return Err(format!("empty batch at row {p}")); }
                if let Some(k) = k { if vals.len() > *k { return Err(format!("batch of {} rows for expected_size {k}", vals.len())); } }
                if p + vals.len() > n || vals[..] != items[p..p + vals.len()] {
                    return Err(format!("batch at row {p} is {vals:?}, the column holds {:?}", &items[p..(p + vals.len()).min(n)]));
                }
                p += vals.len();
            }
        }
    }
    if oi != out.len() { return Err(format!("{} extra batch(es) after the end: {:?}", out.len() - oi, &out[oi..])); }
    if p < n { return Err(format!("rows {p}..{n} were never returned")); }
    Ok(())
}

pub fn column(depth: usize) -> Value {
    let mut tried = 0u64;
    // value sequences: every sequence of length <= L over {7, 8, NULL}, plus longer ones with runs
    let l = 4 + depth.min(2);
    let mut seqs: Vec<Vec<Option<i32>>> = vec![vec![]];
    let mut frontier: Vec<Vec<Option<i32>>> = vec![vec![]];
    for _ in 0..l {
        let mut next = vec![];
        for s in &frontier { for v in [Some(7), Some(8), None] { let mut x = s.clone(); x.push(v); next.push(x); } }
        seqs.extend(next.iter().cloned());
        frontier = next;
    }
    let long: Vec<Vec<Option<i32>>> = vec![
        (0..24).map(|i| Some(i / 5)).collect(),
        (0..24).map(|i| if i % 7 < 3 { None } else { Some(i / 4) }).collect(),
        (0..30).map(|i| if (8..17).contains(&i) { None } else { Some(1000 + i) }).collect(),
        (0..40).map(|i| Some([3, 3, 3, 9, 9, 1][i % 6])).collect(),
        (0..33).map(|i| if i % 2 == 0 { None } else { Some(i) }).collect(),
    ];
    for (li, items) in seqs.iter().chain(long.iter()).enumerate() {
        let n = items.len();
        let has_null = items.iter().any(|v| v.is_none());
        for strings in [false, true] {
            for encode in 0u8..3 {
                for nullable in [false, true] {
                    if has_null && !nullable { continue; }
                    for block in [20usize, 48] {
                        // sample the short sequences on the slower configurations
                        if n <= l && (strings || block == 48) && li % (if depth >= 2 { 2 } else { 5 }) != 0 { continue; }
                        let mut plans: Vec<(usize, Vec<ColumnRead>)> = vec![];
                        let drain = |v: &mut Vec<ColumnRead>| { for _ in 0..n + 2 { v.push(ColumnRead::Batch(None)); } };
                        for start in 0..=n {
                            for k in [1usize, 2, 3, 5, n + 5] {
                                let mut v: Vec<ColumnRead> = (0..n + 2).map(|_| ColumnRead::Batch(Some(k))).collect();
                                drain(&mut v);
                                plans.push((start, v));
                            }
                            let mut v = vec![]; drain(&mut v); plans.push((start, v));
                            // skips: one skip, two consecutive skips, skip after a partial read
                            let rest = n - start;
                            for a in 0..=rest.min(6) {
                                let mut v = vec![ColumnRead::Skip(a)]; drain(&mut v); plans.push((start, v));
                                for b in 0..=(rest - a).min(4) {
                                    let mut v = vec![ColumnRead::Skip(a), ColumnRead::Skip(b), ColumnRead::Batch(Some(2))]; drain(&mut v); plans.push((start, v));
                                    if rest - a - b >= 1 {
                                        let mut v = vec![ColumnRead::Batch(Some(1)), ColumnRead::Skip(a), ColumnRead::Batch(Some(1)), ColumnRead::Skip(b)];
                                        // the two reads above consume rows as well: keep the skips inside the column
                                        if 2 + a + b <= rest { drain(&mut v); plans.push((start, v)); }
                                    }
                                }
                            }
                        }
                        if n > l { plans = plans.into_iter().enumerate().filter(|(i, _)| i % (if depth >= 2 { 3 } else { 11 }) == 0).map(|(_, p)| p).collect(); }
                        for (start, steps) in plans {
                            tried += 1;
                            let input = || json!({"items": format!("{items:?}"), "type": if strings { "varchar ('s'+value)" } else { "int" },
                                "encoding": (["plain", "run-length", "dictionary"][encode as usize]), "nullable": nullable, "target_block_size": block,
                                "start_row": start, "steps": format!("{:?}", &steps[..steps.len().min(n + 6)])});
                            match h::column_read(items, strings, encode, nullable, block, start as u32, &steps) {
                                Ok(out) => if let Err(e) = check(items, start, &steps, &out) { return json!({"found": true, "tried": tried, "input": input(), "observed": format!("{e}; batches returned (row id, values): {out:?}")}); },
                                Err(e) => {
                                    // an empty column cannot be built (zero blocks): not a read-back failure
                                    if n == 0 { continue; }
                                    return json!({"found": true, "tried": tried, "input": input(), "observed": e});
                                }
                            }
                        }
                    }
                }
            }
        }
    }
    // wide columns: more than 255 distinct values (dictionary codes, run counts and row counts beyond one byte), long runs, a
    // long stretch of NULLs; read from a few start rows in whole-column and 7-row batches
    let wide: Vec<Vec<Option<i32>>> = vec![
        (0..300).map(Some).collect(),
        (0..300).map(|i| if i % 9 == 4 { None } else { Some(i * 3) }).collect(),
        (0..520).map(|i| Some(i / 260)).collect(),
        (0..300).map(|i| if (20..280).contains(&i) { None } else { Some(i) }).collect(),
    ];
    for items in &wide {
        let n = items.len();
        let has_null = items.iter().any(|v| v.is_none());
        for strings in [false, true] {
            for encode in 0u8..3 {
                for nullable in [false, true] {
                    if has_null && !nullable { continue; }
                    for block in [48usize, 4096] {
                        for start in [0usize, 1, 255, 256, 257, n - 1, n] {
                            for k in [None, Some(7)] {
                                tried += 1;
                                // a batch never spans blocks and a block may hold a single row: n + 2 reads drain the column in every layout
                                let steps: Vec<ColumnRead> = (0..n + 2).map(|_| ColumnRead::Batch(k)).collect();
                                let input = || json!({"items": format!("{} values: {:?} ...", n, &items[..12]), "type": if strings { "varchar ('s'+value)" } else { "int" }, "encoding": (["plain", "run-length", "dictionary"][encode as usize]),
                                    "nullable": nullable, "target_block_size": block, "start_row": start, "steps": format!("{:?}", &steps[..2])});
                                match h::column_read(items, strings, encode, nullable, block, start as u32, &steps) {
                                    Ok(out) => if let Err(e) = check(items, start, &steps, &out) { return json!({"found": true, "tried": tried, "input": input(), "observed": format!("{e}; first batches returned (row id, values): {:?}", &out[..out.len().min(3)])}); },
                                    Err(e) => return json!({"found": true, "tried": tried, "input": input(), "observed": e}),
                                }
                            }
                        }
                    }
                }
            }
        }
    }
    // long varchar values (a value is never split over blocks: one larger than the target block size, or than 64 KiB, still has
    // to read back whole); value v >= 1_000_000 stands for 'L' + v - 1_000_000 times 'x'
    let long_strings: Vec<Vec<Option<i32>>> = vec![
        vec![Some(5), Some(1_070_000), Some(9), Some(1_066_000), Some(1_000_000)],
        vec![Some(1_000_300), None, Some(1_065_534), Some(1_065_535), Some(1_065_536), Some(3)],
        vec![Some(1_020_000), Some(1_020_000), Some(1_030_000), Some(1_030_000), Some(2)],
    ];
    for items in &long_strings {
        let n = items.len();
        let has_null = items.iter().any(|v| v.is_none());
        for encode in 0u8..3 {
            for nullable in [false, true] {
                if has_null && !nullable { continue; }
                for block in [4096usize, 16384] {
                    for start in 0..=n {
                        for k in [None, Some(2)] {
                            tried += 1;
                            let steps: Vec<ColumnRead> = (0..n + 2).map(|_| ColumnRead::Batch(k)).collect();
                            let input = || json!({"items": format!("{items:?} (v >= 1000000: 'L' + (v - 1000000) x 'x')"), "type": "varchar", "encoding": (["plain", "run-length", "dictionary"][encode as usize]),
                                "nullable": nullable, "target_block_size": block, "start_row": start, "steps": format!("{:?}", &steps[..2])});
                            match h::column_read(items, true, encode, nullable, block, start as u32, &steps) {
                                Ok(out) => if let Err(e) = check(items, start, &steps, &out) { return json!({"found": true, "tried": tried, "input": input(), "observed": format!("{e}; batches returned (row id, values; -1 = damaged string): {out:?}")}); },
                                Err(e) => return json!({"found": true, "tried": tried, "input": input(), "observed": e}),
                            }
                        }
                    }
                }
            }
        }
    }
    // BLOB columns (their own column builder, block factory and index bookkeeping): short sequences with runs and NULLs, the
    // wide sequences and the long values
    let blob_seqs: Vec<Vec<Option<i32>>> = {
        let mut v: Vec<Vec<Option<i32>>> = vec![
            vec![Some(7), Some(7), None, None, Some(8), Some(7), Some(7), Some(7), None, Some(9)],
            (0..40).map(|i| Some([3, 3, 3, 9, 9, 1][i % 6])).collect(),
            (0..33).map(|i| if i % 4 == 0 { None } else { Some(i / 3) }).collect(),
        ];
        v.extend(wide.iter().take(2).cloned());
        v.push(long_strings[0].clone());
        v
    };
    for items in &blob_seqs {
        let n = items.len();
        let has_null = items.iter().any(|v| v.is_none());
        let big = items.iter().flatten().any(|v| *v >= 1_000_000);
        for encode in 10u8..13 {
            for nullable in [false, true] {
                if has_null && !nullable { continue; }
                for block in if big { vec![4096usize] } else { vec![48usize, 4096] } {
                    let starts: Vec<usize> = if n > 50 { vec![0, 1, 255, 256, n - 1, n] } else { (0..=n).collect() };
                    for start in starts {
                        for k in [None, Some(3)] {
                            tried += 1;
                            let steps: Vec<ColumnRead> = (0..n + 2).map(|_| ColumnRead::Batch(k)).collect();
                            let input = || json!({"items": format!("{} values: {:?}", n, &items[..n.min(12)]), "type": "blob (bytes of 's'+value)", "encoding": (["plain", "run-length", "dictionary"][(encode - 10) as usize]),
                                "nullable": nullable, "target_block_size": block, "start_row": start, "steps": format!("{:?}", &steps[..2])});
                            match h::column_read(items, true, encode, nullable, block, start as u32, &steps) {
                                Ok(out) => if let Err(e) = check(items, start, &steps, &out) { return json!({"found": true, "tried": tried, "input": input(), "observed": format!("{e}; first batches returned (row id, values): {:?}", &out[..out.len().min(3)])}); },
                                Err(e) => return json!({"found": true, "tried": tried, "input": input(), "observed": e}),
                            }
                        }
                    }
                }
            }
        }
    }
    json!({"found": false, "tried": tried})
}
