//! Native replay / search driver: runs REAL risinglight code (through `risinglight::storage::verif_hooks`)
//! on concrete inputs. Prints one JSON object on stdout.
//!   verif-replay search <unit> [depth]     enumerate small structured inputs, report the first failing one
//!   verif-replay kani <harness> <json array of byte vectors>   replay a Kani counterexample natively
use risinglight::storage::verif_hooks as h;
use serde_json::{Value, json};
mod sql;
mod col;
mod compact;
mod corrupt;
mod crash;

fn le_u32(b: &[u8]) -> u32 { let mut a = [0u8; 4]; a[..b.len().min(4)].copy_from_slice(&b[..b.len().min(4)]); u32::from_le_bytes(a) }
fn le_i32(b: &[u8]) -> i32 { le_u32(b) as i32 }

fn kani(harness: &str, vals: &Vec<Vec<u8>>) -> Value {
    let r: Result<(), String> = match harness {
        "varint_roundtrip" => h::varint_roundtrip(le_u32(&vals[0])),
        "fw_interval_subday" => h::interval_roundtrip_secs(le_i32(&vals[0])),
        "fw_i32" => h::i32_roundtrip(le_i32(&vals[0])),
        "rowhandler_roundtrip" | "rowhandler_pack_contract" => h::rowhandler_roundtrip(le_u32(&vals[0]), le_u32(&vals[1])),
        "rowhandler_injective" => h::rowhandler_roundtrip(le_u32(&vals[0]), le_u32(&vals[1])).and(h::rowhandler_roundtrip(le_u32(&vals[2]), le_u32(&vals[3]))),
        _ => return json!({"reproduced": false, "note": format!("no native replay for harness {harness}")}),
    };
    match r {
        Ok(()) => json!({"reproduced": false, "note": "the concrete values satisfy the property natively"}),
        Err(e) => json!({"reproduced": true, "failure": e}),
    }
}

/// all sorted i32 sequences of length n over 0..k
fn sorted_seqs(n: usize, k: i32, cur: &mut Vec<i32>, out: &mut Vec<Vec<i32>>) {
    if cur.len() == n { out.push(cur.clone()); return; }
    let lo = cur.last().copied().unwrap_or(0);
    for v in lo..k { cur.push(v); sorted_seqs(n, k, cur, out); cur.pop(); }
}

fn search(unit: &str, depth: usize) -> Value {
    let mut tried = 0u64;
    match unit {
        // start_rowid: every sorted key column of <= depth+3 rows over 4 key values, 2 rows per block, every bound
        "startrow" => {
            for n in 1..=(depth + 3) {
                let mut seqs = vec![];
                sorted_seqs(n, 4, &mut vec![], &mut seqs);
                for keys in seqs {
                    for begin in -1..5 {
                        tried += 1;
                        // target block size 24 = 16 (trailer allowance) + 8 payload bytes = 2 keys per block
                        match h::start_rowid(&keys, 24, begin) {
                            Ok(r) => {
                                if let Some(row) = keys.iter().position(|k| *k >= begin) {
                                    if (row as u32) < r {
                                        return json!({"found": true, "tried": tried, "input": {"keys": keys, "rows_per_block": 2, "begin": begin},
                                            "observed": format!("start_rowid = {r} but row {row} (key {}) satisfies key >= {begin}", keys[row])});
                                    }
                                }
                            }
                            Err(e) => return json!({"found": true, "tried": tried, "input": {"keys": keys, "begin": begin}, "observed": e}),
                        }
                    }
                }
            }
        }
        // index files: every single-byte corruption / truncation of small genuine index files must be rejected
        // or decode to the original entries; the genuine file must be accepted
        "idxfooter" => {
            for n in 0..=(depth + 2) {
                let entries: Vec<(u64, u64, u32, u32)> = (0..n).map(|i| (i as u64 * 20, 20, i as u32 * 3, 3)).collect();
                let good = h::index_build(&entries, true);
                tried += 1;
                match h::index_from_bytes(&good) {
                    Ok(e) if e == entries => {}
                    other => return json!({"found": true, "tried": tried, "input": {"entries": n, "corruption": "none"}, "observed": format!("{other:?}")}),
                }
                for cut in 0..good.len() {
                    tried += 1;
                    if let Ok(e) = h::index_from_bytes(&good[..cut]) { if e != entries {
                        return json!({"found": true, "tried": tried, "input": {"entries": n, "truncate_to": cut}, "observed": format!("accepted {} entries", e.len())}); } }
                    else if let Err(e) = h::index_from_bytes(&good[..cut]) { if e.starts_with("PANIC") {
                        return json!({"found": true, "tried": tried, "input": {"entries": n, "truncate_to": cut}, "observed": e}); } }
                }
                for pos in 0..good.len() {
                    for bit in 0..8 {
                        tried += 1;
                        let mut bad = good.clone();
                        bad[pos] ^= 1 << bit;
                        match h::index_from_bytes(&bad) {
                            Ok(e) if e != entries => return json!({"found": true, "tried": tried, "input": {"entries": n, "flip_byte": pos, "bit": bit},
                                "observed": format!("accepted; decoded {} entries {:?}", e.len(), e)}),
                            Err(e) if e.starts_with("PANIC") => return json!({"found": true, "tried": tried, "input": {"entries": n, "flip_byte": pos, "bit": bit}, "observed": e}),
                            _ => {}
                        }
                    }
                }
            }
        }
        // block trailer: every single-bit flip of a genuine block must be rejected by decode_block_meta(verify)
        "blockmeta" => {
            for n in 0..=(depth + 2) {
                let payload: Vec<u8> = (0..n as u8).map(|i| i.wrapping_mul(37).wrapping_add(1)).collect();
                let good = h::finish_block(&payload);
                tried += 1;
                if let Err(e) = h::decode_block_meta(&good, true) {
                    return json!({"found": true, "tried": tried, "input": {"payload": payload, "corruption": "none"}, "observed": e});
                }
                for pos in 0..good.len() {
                    for bit in 0..8 {
                        tried += 1;
                        let mut bad = good.clone();
                        bad[pos] ^= 1 << bit;
                        match h::decode_block_meta(&bad, true) {
                            Ok(()) => return json!({"found": true, "tried": tried, "input": {"payload": payload, "flip_byte": pos, "bit": bit}, "observed": "corrupted block accepted"}),
                            Err(e) if e.starts_with("PANIC") => return json!({"found": true, "tried": tried, "input": {"payload": payload, "flip_byte": pos, "bit": bit}, "observed": e}),
                            _ => {}
                        }
                    }
                }
                for cut in 0..good.len() {
                    tried += 1;
                    if let Ok(()) = h::decode_block_meta(&good[..cut], true) {
                        return json!({"found": true, "tried": tried, "input": {"payload": payload, "truncate_to": cut}, "observed": "truncated block accepted"});
                    }
                }
            }
        }
        // manifest: every byte-prefix of a genuine log must replay to the complete transactions before the cut
        "replay" => {
            let txns: Vec<&str> = vec![
                r#""Begin"{"AddRowSet":{"table_id":{"schema_id":1,"table_id":0},"rowset_id":0}}"End""#,
                r#""Begin"{"AddRowSet":{"table_id":{"schema_id":1,"table_id":0},"rowset_id":1}}{"DeleteRowSet":{"table_id":{"schema_id":1,"table_id":0},"rowset_id":0}}"End""#,
                r#""Begin""End""#,
                r#""Begin"{"AddDV":{"table_id":{"schema_id":1,"table_id":0},"dv_id":0,"rowset_id":1}}"End""#,
            ];
            let ops_per_txn = [1usize, 2, 0, 1];
            let log: String = txns.iter().take(depth + 3).cloned().collect();
            let mut ends = vec![];
            let mut acc = 0;
            for t in txns.iter().take(depth + 3) { acc += t.len(); ends.push(acc); }
            for cut in 0..=log.len() {
                tried += 1;
                let expect: usize = ends.iter().zip(ops_per_txn.iter()).filter(|(e, _)| **e <= cut).map(|(_, n)| *n).sum();
                match h::manifest_replay(&log.as_bytes()[..cut]) {
                    Ok(ops) if ops.len() == expect => {}
                    other => return json!({"found": true, "tried": tried, "input": {"log": log, "cut_at_byte": cut},
                        "observed": format!("expected {expect} committed operations, got {other:?}")}),
                }
            }
        }
        // delete-vector file: what is written is what is loaded
        "dv" => {
            let n = depth + 4;
            for mask in 0u32..(1 << n) {
                tried += 1;
                let rows: Vec<u32> = (0..n as u32).filter(|i| mask & (1 << i) != 0).collect();
                match h::dv_file_roundtrip(&rows, n) {
                    Ok(vis) => {
                        let want: Vec<bool> = (0..n as u32).map(|i| !rows.contains(&i)).collect();
                        if vis != want { return json!({"found": true, "tried": tried, "input": {"deleted_rows": rows}, "observed": format!("visible after reopen: {vis:?}")}); }
                    }
                    Err(e) => return json!({"found": true, "tried": tried, "input": {"deleted_rows": rows}, "observed": e}),
                }
            }
        }
        // nullable plain block: every value/NULL pattern, every skip, batch sizes 1..3
        "nullable" => {
            let n = depth + 4;
            for mask in 0u32..(1 << n) {
                let items: Vec<Option<i32>> = (0..n).map(|i| if mask & (1 << i) != 0 { Some(i as i32 + 10) } else { None }).collect();
                for skip in 0..=n {
                    for batch in 1..=3 {
                        tried += 1;
                        match h::nullable_block_read(&items, skip, batch) {
                            Ok(out) if out == items[skip..] => {}
                            other => return json!({"found": true, "tried": tried, "input": {"items": format!("{items:?}"), "skip": skip, "batch": batch}, "observed": format!("{other:?}")}),
                        }
                    }
                }
            }
        }
        // RLE / dictionary i32 blocks: every value pattern over {7, 8} (runs of every length), every skip, batches 1..3
        "rle" | "dict" => {
            let n = depth + 5;
            for mask in 0u32..(1 << n) {
                let items: Vec<i32> = (0..n).map(|i| if mask & (1 << i) != 0 { 7 } else { 8 }).collect();
                for skip in 0..=n {
                    for batch in 1..=3 {
                        tried += 1;
                        let got = if unit == "rle" { h::rle_block_read(&items, skip, batch) } else { h::dict_block_read(&items, skip, batch) };
                        let want: Vec<Option<i32>> = items[skip..].iter().map(|x| Some(*x)).collect();
                        match got {
                            Ok(out) if out == want => {}
                            other => return json!({"found": true, "tried": tried, "input": {"items": items, "skip": skip, "batch": batch}, "observed": format!("{other:?}")}),
                        }
                    }
                }
            }
        }
        // varchar blocks: strings of length 0..2 in every combination, every skip, batches 1..3
        "blob" => {
            let alphabet = ["", "a", "bc"];
            let n = depth + 3;
            let total = (alphabet.len() as u32).pow(n as u32);
            for code in 0..total {
                let mut c = code;
                let items: Vec<String> = (0..n).map(|_| { let s = alphabet[(c % 3) as usize].to_string(); c /= 3; s }).collect();
                for skip in 0..=n {
                    for batch in 1..=3 {
                        tried += 1;
                        let want: Vec<Option<String>> = items[skip..].iter().map(|x| Some(x.clone())).collect();
                        match h::blob_block_read(&items, skip, batch) {
                            Ok(out) if out == want => {}
                            other => return json!({"found": true, "tried": tried, "input": {"items": items, "skip": skip, "batch": batch}, "observed": format!("{other:?}")}),
                        }
                    }
                }
            }
        }
        // fixed-width char blocks: strings of length 0..=width in every combination, every skip, batches 1..3
        "charblock" => {
            let width = 3usize;
            // (multi-byte characters included: the width of a char(n) slot is counted in bytes)
            let alphabet = ["", "a", "bc", "def", "\u{e9}", "\u{e9}x"];
            let n = depth + 3;
            let total = (alphabet.len() as u32).pow(n as u32);
            for code in 0..total {
                let mut c = code;
                let items: Vec<String> = (0..n).map(|_| { let s = alphabet[(c % 6) as usize].to_string(); c /= 6; s }).collect();
                for skip in 0..=n {
                    for batch in 1..=3 {
                        tried += 1;
                        let want: Vec<Option<String>> = items[skip..].iter().map(|x| Some(x.clone())).collect();
                        match h::char_block_read(&items, width, skip, batch) {
                            Ok(out) if out == want => {}
                            other => return json!({"found": true, "tried": tried, "input": {"items": items, "char_width": width, "skip": skip, "batch": batch}, "observed": format!("{other:?}")}),
                        }
                    }
                }
            }
        }
        // Float64 columns: values that compare equal but are not identical (0.0 / -0.0, two NaN payloads) must come back bit-exact
        "f64col" => {
            let skip: Vec<String> = std::env::var("VERIF_NATIVE_SKIP").ok().and_then(|s| serde_json::from_str(&s).ok()).unwrap_or_default();
            let h32_known = skip.iter().any(|s| s == "H32");
            let mut known: Vec<Value> = vec![];
            let vals: [u64; 5] = [0.0f64.to_bits(), (-0.0f64).to_bits(), 1.5f64.to_bits(), 0x7ff8_0000_0000_0000, 0x7ff8_0000_0000_0001];
            let n = depth + 2;
            let total = (vals.len() as u32).pow(n as u32);
            for code in 0..total {
                let mut c = code;
                let items: Vec<u64> = (0..n).map(|_| { let v = vals[(c % 5) as usize]; c /= 5; v }).collect();
                for encode in 0u8..3 {
                    tried += 1;
                    let shown = || json!({"values_as_bits": items.iter().map(|b| format!("{b:#018x}")).collect::<Vec<_>>(), "values": items.iter().map(|b| format!("{:?}", f64::from_bits(*b))).collect::<Vec<_>>(),
                        "encoding": (["plain", "run-length", "dictionary"][encode as usize])});
                    match h::f64_column_roundtrip(&items, encode, 64) {
                        Ok(out) if out == items => {}
                        other => {
                            // known finding H32: run-length / dictionary blocks merge values that compare equal (OrderedFloat: 0.0 == -0.0, NaN == NaN)
                            let same_up_to_eq = matches!(&other, Ok(o) if o.len() == items.len() && o.iter().zip(&items).all(|(a, b)| { let (x, y) = (f64::from_bits(*a), f64::from_bits(*b)); x == y || (x.is_nan() && y.is_nan()) }));
                            if h32_known && encode != 0 && same_up_to_eq {
                                if known.len() < 5 { known.push(json!({"fragment": "H32", "statement": shown().to_string(), "observed": format!("{other:?}")})); }
                                continue;
                            }
                            return json!({"found": true, "tried": tried, "input": shown(), "observed": format!("{other:?}")});
                        }
                    }
                }
            }
            return json!({"found": false, "tried": tried, "known_failures": known});
        }
        "varint" => {
            for v in (0u32..300).chain([0x3FFF, 0x4000, 0x1F_FFFF, 0x20_0000, 0xFFF_FFFF, 0x1000_0000, 0xEFFF_FFFF, 0xF000_0000, u32::MAX]) {
                tried += 1;
                if let Err(e) = h::varint_roundtrip(v) { return json!({"found": true, "tried": tried, "input": {"v": v}, "observed": e}); }
            }
        }
        "column" => return col::column(depth),
        "sqlcrash" => return crash::crash(depth),
        "sqlcorrupt" => return corrupt::corrupt(depth),
        "sqlcompact" => return compact::compact(depth),
        "sqlddl" => return sql::ddl(depth),
        "sqlexpr" => return sql::expr(depth),
        "sqlorder" => return sql::order(depth),
        "sqlrange" => return sql::range(depth),
        "sqlagg" => return sql::agg(depth),
        "sqljoin" => return sql::join(depth),
        "sqlhistory" => return sql::history(depth),
        _ => return json!({"found": false, "tried": 0, "note": format!("no native search for unit {unit}")}),
    }
    json!({"found": false, "tried": tried})
}

fn main() {
    let a: Vec<String> = std::env::args().collect();
    let out = match a.get(1).map(|s| s.as_str()) {
        Some("search") => search(&a[2], a.get(3).and_then(|d| d.parse().ok()).unwrap_or(1)),
        Some("kani") => {
            let vals: Vec<Vec<u8>> = serde_json::from_str(&a[3]).expect("json array of byte arrays");
            kani(&a[2], &vals)
        }
        // verif-replay sql <mem|disk:BLOCK:ROWSET> <json list of statements> [json list of reopen points]
        Some("sql") => {
            let disk = a[2].strip_prefix("disk:").map(|r| { let v: Vec<usize> = r.split(':').map(|x| x.parse().unwrap()).collect(); (v[0], v[1]) });
            let sqls: Vec<String> = serde_json::from_str(&a[3]).expect("json list of statements");
            let reopen: Vec<usize> = a.get(4).map(|r| serde_json::from_str(r).expect("json list")).unwrap_or_default();
            match h::sql_session(disk, &sqls, &reopen) {
                Ok(outs) => json!({"results": outs.iter().map(|o| match o { Ok(rows) => json!({"rows": rows}), Err(e) => json!({"error": e}) }).collect::<Vec<_>>()}),
                Err(e) => json!({"session_error": e}),
            }
        }
        // verif-replay sqlm <BLOCK> <ROWSET> <json statements> <json reopen points> <json compaction points>   (no background tasks)
        Some("sqlm") => {
            let sqls: Vec<String> = serde_json::from_str(&a[4]).expect("json list of statements");
            let reopen: Vec<usize> = a.get(5).map(|r| serde_json::from_str(r).expect("json list")).unwrap_or_default();
            let compact: Vec<usize> = a.get(6).map(|r| serde_json::from_str(r).expect("json list")).unwrap_or_default();
            match h::sql_session_manual(a[2].parse().unwrap(), a[3].parse().unwrap(), &sqls, &reopen, &compact) {
                Ok(outs) => json!({"results": outs.iter().map(|o| match o { Ok(rows) => json!({"rows": rows}), Err(e) => json!({"error": e}) }).collect::<Vec<_>>()}),
                Err(e) => json!({"session_error": e}),
            }
        }
        _ => json!({"error": "usage: verif-replay search <unit> [depth] | kani <harness> <json> | sql <mem|disk:B:R> <json stmts> [reopen] | sqlm B R <json stmts> [reopen] [compact]"}),
    };
    println!("{out}");
}
