//! C18 at system level: a database written through SQL (CRC32 checksums, as from the command line), one `.col` / `.idx`
//! file damaged (single bit flip, byte overwrite, truncation), reopened, every table read twice (first read, cached read).
//! Each read of the damaged table must fail or return exactly the original rows; the other table must stay readable.
//! (RowSet directories are named <table id>_<rowset id>: table a has id 0, table b id 1.)
use risinglight::storage::verif_hooks as h;
use serde_json::{Value, json};

pub fn corrupt(depth: usize) -> Value {
    // two tables: `a` gets damaged, `b` must stay readable. 40 rows in 3 inserts, small blocks: several blocks per column file
    let mut sqls: Vec<String> = vec!["create table a(k int primary key, v int, s varchar)".into(), "create table b(k int primary key, v int)".into()];
    let row = |i: i64| format!("({i},{},'s{}')", i % 7, i * 3);
    for part in [0..15i64, 15..30, 30..40] { sqls.push(format!("insert into a values {}", part.map(row).collect::<Vec<_>>().join(","))); }
    sqls.push(format!("insert into b values {}", (0..20i64).map(|i| format!("({i},{})", i % 3)).collect::<Vec<_>>().join(",")));
    let corrupt_before = sqls.len();
    let reads = ["select k, v, s from a", "select k, v, s from a", "select count(*), sum(v) from a", "select k, v from b", "select s from a where k >= 20", "select k, v from b"];
    // 48-byte blocks: 8 int rows per block, so every column file of the 15/15/10-row RowSets has two blocks (damage beyond the
    // first block is only met while a scan is under way, not when the iterators are created)
    let first = scenario(depth, sqls, corrupt_before, &reads, expected(&reads), 48, " from a");
    if first["found"] == json!(true) { return first; }
    // a RowSet written by the COMPACTOR: three RowSets of a low-cardinality table (few distinct values per block: the compactor
    // chooses dictionary encoding for what it writes) are merged by one compaction pass (`@compact`) before the damage; the
    // blocks of the merged RowSet are protected like the ones an INSERT writes
    let mut sqls: Vec<String> = vec!["create table a(v int, w int)".into()];
    for _ in 0..3 { sqls.push(format!("insert into a values {}", (0..20i64).map(|i| format!("({},5)", i % 2)).collect::<Vec<_>>().join(","))); }
    sqls.push("@compact".into());
    let corrupt_before = sqls.len();
    let reads2 = ["select v, w from a", "select v, w from a", "select count(*), sum(v), sum(w) from a"];
    let mut rows: Vec<Vec<String>> = (0..60i64).map(|i| vec![(i % 2).to_string(), "5".to_string()]).collect(); rows.sort();
    let base2 = vec![rows.clone(), rows, vec![vec!["60".to_string(), "30".to_string(), "300".to_string()]]];
    let second = scenario(if depth >= 2 { depth } else { 0 }, sqls, corrupt_before, &reads2, base2, 4096, " from a");
    if second["found"] == json!(true) { return second; }
    let mut known = first["known_failures"].as_array().cloned().unwrap_or_default();
    known.extend(second["known_failures"].as_array().cloned().unwrap_or_default());
    json!({"found": false, "tried": first["tried"].as_u64().unwrap_or(0) + second["tried"].as_u64().unwrap_or(0),
        "files": first["files"].as_u64().unwrap_or(0) + second["files"].as_u64().unwrap_or(0), "known_failures": known})
}

/// one written database (`sqls[..corrupt_before]`), every fault of the list on every `.col` / `.idx` file, the reads after a reopen
fn scenario(depth: usize, sqls: Vec<String>, corrupt_before: usize, reads: &[&str], base: Vec<Vec<Vec<String>>>, block: usize, damaged_from: &str) -> Value {
    let mut tried = 0u64;
    let mut sqls = sqls;
    for r in reads { sqls.push((*r).into()); }
    // reference run: damage nothing (kind 2 rewriting a byte with its own value is not expressible; use a no-op flip twice instead)
    let (base, files) = match h::sql_session_corrupt(block, &sqls, corrupt_before, 0, 1, usize::MAX, 0) {
        // truncating to `usize::MAX % len` would damage: instead take the listing from a run whose results we ignore
        Ok((_, files)) => {
            // undamaged reference: file index beyond every a-file is impossible, so read the expected rows from the model
            (base, files)
        }
        Err(e) => return json!({"found": true, "tried": 1, "input": {"statements": sqls}, "observed": format!("reference session failed: {e}")}),
    };
    let a_files: Vec<usize> = files.iter().enumerate().filter(|(_, (p, _))| !p.starts_with("1_") && p.contains('/')).map(|(i, _)| i).collect();
    let _ = a_files;
    let per_file = match depth { 0 | 1 => 6, 2 => 40, _ => 400 };
    // known finding H31 (named in $VERIF_NATIVE_SKIP): a damaged INDEX file makes the whole database fail to open
    let skip: Vec<String> = std::env::var("VERIF_NATIVE_SKIP").ok().and_then(|s| serde_json::from_str(&s).ok()).unwrap_or_default();
    let h31_known = skip.iter().any(|s| s == "H31");
    let mut known: Vec<Value> = vec![];
    for (fi, (path, len)) in files.iter().enumerate() {
        if *len == 0 { continue; }
        // which table does the file belong to? RowSet directories are named <table id>_<rowset id>; table a has id 0
        let of_a = path.split('/').next().map(|d| d.starts_with("0_")).unwrap_or(false);
        let mut faults: Vec<(u8, usize, u8)> = vec![];
        let len = *len as usize;
        for j in 0..per_file {
            let at = (j * 7919 + fi * 104729) % len;
            faults.push((0, at, (j % 8) as u8));             // bit flip somewhere
            faults.push((2, at, 0xFF));                       // byte overwrite
            faults.push((2, at, 0x00));
        }
        // the trailer region and the file ends
        for at in [0usize, 1, len - 1, len.saturating_sub(2), len.saturating_sub(5), len.saturating_sub(9), len.saturating_sub(13), len.saturating_sub(16), len.saturating_sub(17)] {
            for bit in 0..8u8 { if depth >= 2 || bit % 3 == 0 { faults.push((0, at, bit)); } }
        }
        for cut in [len - 1, len.saturating_sub(4), len.saturating_sub(12), len.saturating_sub(16), len.saturating_sub(20), len / 2, 1, 0] { faults.push((1, cut, 0)); }
        for (kind, at, bit) in faults {
            tried += 1;
            let input = || json!({"statements_before_damage": &sqls[..corrupt_before], "damaged_file": path, "file_length": len,
                "damage": match kind { 0 => format!("flip bit {bit} of byte {at}"), 1 => format!("truncate to {at} bytes"), _ => format!("overwrite byte {at} with {bit:#04x}") },
                "statements_after_reopen": &sqls[corrupt_before..], "target_block_size": block});
            let (outs, _) = match h::sql_session_corrupt(block, &sqls, corrupt_before, fi, kind, at, bit) {
                Ok(x) => x,
                Err(e) => return json!({"found": true, "tried": tried, "input": input(), "observed": format!("session failed: {e}")}),
            };
            let open_failed = outs[corrupt_before..].iter().all(|o| matches!(o, Err(e) if e.starts_with("OPEN FAILED")));
            if open_failed && h31_known && path.ends_with(".idx") {
                if known.len() < 5 { known.push(json!({"fragment": "H31", "statement": format!("{} of {path}", match kind { 0 => format!("flip bit {bit} of byte {at}"), 1 => format!("truncate to {at} bytes"), _ => format!("overwrite byte {at} with {bit:#04x}") }),
                    "observed": outs[corrupt_before].clone().err()})); }
                continue;
            }
            for (j, want) in base.iter().enumerate() {
                let got = &outs[corrupt_before + j];
                let reads_a = reads[j].contains(damaged_from);
                match got {
                    Ok(rows) => {
                        let mut g = rows.clone(); g.sort();
                        if g != *want { return json!({"found": true, "tried": tried, "input": input(), "observed": format!("`{}` returned Ok with rows that differ from what was written: {} rows, first {:?}", reads[j], g.len(), g.iter().find(|r| !want.contains(r)).or(g.first()))}); }
                    }
                    Err(e) => {
                        // an error is the right answer for reads of the damaged table; the other table must stay readable
                        if of_a != reads_a {
                            return json!({"found": true, "tried": tried, "input": input(), "observed": format!("`{}` does not touch the damaged file but failed: {e}", reads[j])});
                        }
                    }
                }
            }
        }
    }
    json!({"found": false, "tried": tried, "files": files.len(), "known_failures": known})
}

fn expected(reads: &[&str]) -> Vec<Vec<Vec<String>>> {
    let a: Vec<(i64, i64, String)> = (0..40i64).map(|i| (i, i % 7, format!("s{}", i * 3))).collect();
    let b: Vec<(i64, i64)> = (0..20i64).map(|i| (i, i % 3)).collect();
    reads.iter().map(|q| {
        let mut rows: Vec<Vec<String>> = match *q {
            "select k, v, s from a" => a.iter().map(|(k, v, s)| vec![k.to_string(), v.to_string(), s.clone()]).collect(),
            "select count(*), sum(v) from a" => vec![vec![a.len().to_string(), a.iter().map(|r| r.1).sum::<i64>().to_string()]],
            "select k, v from b" => b.iter().map(|(k, v)| vec![k.to_string(), v.to_string()]).collect(),
            _ => a.iter().filter(|r| r.0 >= 20).map(|r| vec![r.2.clone()]).collect(),
        };
        rows.sort();
        rows
    }).collect()
}
