//! C07: histories with forced compactions. The database runs WITHOUT its background tasks (`sql_session_manual`), a
//! compaction pass is run exactly where the history says so, with a target RowSet size large enough to merge every RowSet
//! of the table. After every step the table must hold exactly the model's rows, DELETE must report the number of rows it
//! removed, and an ordered scan of the keyed table must come out in key order.
use risinglight::storage::verif_hooks as h;
use serde_json::{Value, json};

#[derive(Clone, Copy, Debug, PartialEq)]
enum Op { Ins(usize), Del(usize), Compact, Reopen }

pub fn compact(depth: usize) -> Value {
    let mut tried = 0u64;
    let batches: Vec<Vec<(i64, i64)>> = vec![
        (0..6).map(|i| (2 * i, i % 3)).collect(), (0..6).map(|i| (2 * i + 1, i % 2)).collect(), (20..25).map(|i| (i, 2)).collect()];
    let dels: Vec<(&str, Box<dyn Fn(i64, i64) -> bool>)> = vec![
        ("k < 4", Box::new(|k, _| k < 4)), ("v = 1", Box::new(|_, v| v == 1)), ("k >= 3 and k <= 21", Box::new(|k, _| k >= 3 && k <= 21)), ("k >= 0", Box::new(|k, _| k >= 0)),
        // every row of the third batch (a RowSet that is deleted entirely, with live RowSets before and after it)
        ("v = 2", Box::new(|_, v| v == 2))];
    let mut alphabet = vec![Op::Compact, Op::Reopen];
    for i in 0..batches.len() { alphabet.push(Op::Ins(i)); }
    for i in 0..dels.len() { alphabet.push(Op::Del(i)); }
    let len = 5 + depth.min(2);
    let mut seqs: Vec<Vec<Op>> = vec![];
    fn rec(cur: &mut Vec<Op>, len: usize, alphabet: &[Op], out: &mut Vec<Vec<Op>>) {
        if cur.len() == len { if cur.contains(&Op::Compact) { out.push(cur.clone()); } return; }
        for o in alphabet {
            if let Op::Ins(i) = o { if cur.iter().any(|p| *p == Op::Ins(*i)) { continue; } }
            if cur.is_empty() && !matches!(o, Op::Ins(_)) { continue; }
            if matches!(o, Op::Compact | Op::Reopen) && cur.last() == Some(o) { continue; }
            cur.push(*o); rec(cur, len, alphabet, out); cur.pop();
        }
    }
    rec(&mut vec![], len, &alphabet, &mut seqs);
    // a table that has a delete vector on a RowSet the compactor merged away is dropped: the next recoveries must work and
    // leave the other table alone (the delete vector outlives its RowSet in the log until the table goes)
    for (block, target) in [(64usize, 1usize << 20), (24, 1 << 20)] {
        let sqls: Vec<String> = vec![
            "create table keep(k int primary key, v int)".into(), "insert into keep values (1,1),(2,2)".into(),
            "create table dd(k int primary key, v int)".into(), "insert into dd values (1,10),(2,20),(3,30)".into(), "insert into dd values (4,40),(5,50)".into(),
            "delete from dd where k = 2".into(), "select k, v from dd".into(), "drop table dd".into(),
            "select k, v from keep".into(), "select k, v from keep".into(), "insert into keep values (3,3)".into(), "select k, v from keep".into(),
        ];
        let (reopen, compact) = (vec![8usize, 9, 11], vec![6usize]);
        tried += sqls.len() as u64;
        let input = |idx: usize| json!({"engine": format!("disk engine without background tasks, target_block_size={block}, target_rowset_size={target}"),
            "statements": &sqls[..=idx], "reopen_before_statement": reopen, "compaction_pass_before_statement": compact, "failing_statement": sqls.get(idx)});
        let outs = match h::sql_session_manual(block, target, &sqls, &reopen, &compact) {
            Ok(o) => o,
            Err(err) => return json!({"found": true, "tried": tried, "input": input(sqls.len() - 1), "observed": format!("the session failed: {err}")}),
        };
        let rows = |v: &[(i64, i64)]| -> Vec<Vec<String>> { v.iter().map(|(k, x)| vec![k.to_string(), x.to_string()]).collect() };
        for (idx, want) in [(6usize, rows(&[(1, 10), (3, 30), (4, 40), (5, 50)])), (8, rows(&[(1, 1), (2, 2)])), (9, rows(&[(1, 1), (2, 2)])), (11, rows(&[(1, 1), (2, 2), (3, 3)]))] {
            match &outs[idx] {
                Ok(got) => { let mut g = got.clone(); g.sort(); if g != want { return json!({"found": true, "tried": tried, "input": input(idx), "observed": format!("expected {want:?}; got {g:?}")}); } }
                Err(err) => return json!({"found": true, "tried": tried, "input": input(idx), "observed": format!("statement failed: {err}")}),
            }
        }
    }
    // a PARTIAL compaction: two RowSets too big for the compactor's size budget (never selected) carry delete vectors; three small
    // RowSets with higher ids are merged by the pass. What the pass retires must not take the delete vectors of the RowSets that
    // stay with it: no query result changes, before and after a reopen
    {
        let (block, target) = (4096usize, 16usize << 10);
        let rows: Vec<String> = (0..6000).map(|i| format!("({i},{})", i % 10)).collect();
        let sqls: Vec<String> = vec![
            "create table p(a int primary key, b int)".into(), format!("insert into p values {}", rows.join(",")),
            "delete from p where b = 0".into(),
            "insert into p values (100000, 1)".into(), "insert into p values (100001, 1)".into(), "insert into p values (100002, 1)".into(),
            "select count(*) from p where b = 0".into(), "select count(*) from p".into(),
            "select count(*) from p where b = 0".into(), "select count(*) from p".into(),
        ];
        let (reopen, compact) = (vec![8usize], vec![6usize]);
        tried += sqls.len() as u64;
        let short: Vec<String> = sqls.iter().map(|q| if q.len() > 200 { format!("{} ... ({} characters)", &q[..120], q.len()) } else { q.clone() }).collect();
        let input = |idx: usize| json!({"engine": format!("disk engine without background tasks, target_block_size={block}, target_rowset_size={target}"),
            "statements": &short[..=idx], "reopen_before_statement": reopen, "compaction_pass_before_statement": compact, "failing_statement": short.get(idx)});
        let outs = match h::sql_session_manual(block, target, &sqls, &reopen, &compact) {
            Ok(o) => o,
            Err(err) => return json!({"found": true, "tried": tried, "input": input(sqls.len() - 1), "observed": format!("the session failed: {err}")}),
        };
        if let Ok(d) = &outs[2] { if *d != vec![vec!["600".to_string()]] { return json!({"found": true, "tried": tried, "input": input(2), "observed": format!("DELETE reported {d:?}, 600 rows have b = 0")}); } }
        for (idx, want) in [(6usize, "0"), (7, "5403"), (8, "0"), (9, "5403")] {
            match &outs[idx] {
                Ok(got) if *got == vec![vec![want.to_string()]] => {}
                other => return json!({"found": true, "tried": tried, "input": input(idx), "observed": format!("expected [[{want}]]; got {other:?}")}),
            }
        }
    }
    let want_sessions = match depth { 0 | 1 => 150, 2 => 1500, _ => usize::MAX };
    let stride = (seqs.len() / want_sessions).max(1);
    // target RowSet sizes: everything fits into one RowSet / only some of the table's RowSets fit together (a pass then merges
    // a subset and must leave the others alone)
    for (cols, t, key_first, block, target) in [("k int primary key, v int", "c", true, 24usize, 1usize << 20), ("v int, k int", "n", false, 64, 1 << 20),
                                                ("k int primary key, v int", "c", true, 24, 420), ("k int primary key, v int", "c", true, 24, 300), ("k int primary key, v int", "c", true, 64, 200), ("v int, k int", "n", false, 64, 200), ("v int, k int", "n", false, 64, 140)] {
        let stride = if target < (1 << 20) { stride * 2 } else { stride };
        for (si, s) in seqs.iter().enumerate() {
            if (si + block + target) % stride != 0 { continue; }
            let mut sqls = vec![format!("create table {t}({cols})")];
            let (mut reopen, mut compact) = (vec![], vec![]);
            let mut model: Vec<(i64, i64)> = vec![];
            let mut expect: Vec<(Option<usize>, Option<usize>, usize, Vec<Vec<String>>)> = vec![];
            for op in s {
                let mut deleted = None;
                let op_idx = match op {
                    Op::Ins(i) => {
                        let vals: Vec<String> = batches[*i].iter().map(|(k, v)| if key_first { format!("({k},{v})") } else { format!("({v},{k})") }).collect();
                        sqls.push(format!("insert into {t} values {}", vals.join(",")));
                        model.extend(batches[*i].iter().cloned());
                        Some(sqls.len() - 1)
                    }
                    Op::Del(i) => {
                        sqls.push(format!("delete from {t} where {}", dels[*i].0));
                        let before = model.len();
                        model.retain(|(k, v)| !(dels[*i].1)(*k, *v));
                        deleted = Some(before - model.len());
                        Some(sqls.len() - 1)
                    }
                    Op::Compact => { compact.push(sqls.len()); None }
                    Op::Reopen => { reopen.push(sqls.len()); None }
                };
                sqls.push(format!("select k, v from {t}"));
                let mut rows: Vec<Vec<String>> = model.iter().map(|(k, v)| vec![k.to_string(), v.to_string()]).collect();
                rows.sort();
                expect.push((op_idx, deleted, sqls.len() - 1, rows));
            }
            sqls.push(format!("select k from {t} order by k"));
            tried += sqls.len() as u64;
            let input = |idx: usize| json!({"engine": format!("disk engine without background tasks, target_block_size={block}, target_rowset_size={target}"),
                "statements": &sqls[..=idx.min(sqls.len() - 1)], "reopen_before_statement": reopen, "compaction_pass_before_statement": compact, "failing_statement": sqls.get(idx)});
            let outs = match h::sql_session_manual(block, target, &sqls, &reopen, &compact) {
                Ok(o) => o,
                Err(err) => return json!({"found": true, "tried": tried, "input": input(sqls.len() - 1), "observed": format!("the session failed: {err}")}),
            };
            for (i, o) in outs.iter().enumerate() {
                if let Err(err) = o { return json!({"found": true, "tried": tried, "input": input(i), "observed": format!("statement failed: {err}")}); }
            }
            for (op_idx, deleted, sidx, rows) in &expect {
                if let (Some(d), Some(oi)) = (deleted, op_idx) {
                    let got = outs[*oi].clone().unwrap();
                    if got != vec![vec![d.to_string()]] { return json!({"found": true, "tried": tried, "input": input(*oi), "observed": format!("expected DELETE to report {d} rows; got {got:?}")}); }
                }
                let mut got = outs[*sidx].clone().unwrap(); got.sort();
                if got != *rows { return json!({"found": true, "tried": tried, "input": input(*sidx), "observed": format!("expected {} rows {rows:?}; got {} rows {got:?}", rows.len(), got.len())}); }
            }
            let last = outs[sqls.len() - 1].clone().unwrap();
            let mut ks: Vec<i64> = model.iter().map(|(k, _)| *k).collect(); ks.sort();
            let want: Vec<Vec<String>> = ks.iter().map(|k| vec![k.to_string()]).collect();
            if last != want { return json!({"found": true, "tried": tried, "input": input(sqls.len() - 1), "observed": format!("expected {want:?}; got {last:?}")}); }
        }
    }
    json!({"found": false, "tried": tried})
}
