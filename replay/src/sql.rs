//! SQL-level bounded searches: small histories / queries run through the REAL database (`Database::run`, both
//! engines, several block / RowSet layouts) via `verif_hooks::sql_session`, compared with oracles computed here.
//! Everything here is a *bounded* check (labelled so in the evidence): it supplies failing inputs for obligations the
//! verifier refuted without a model, and is run proactively by the thorough tier.
use risinglight::storage::verif_hooks as h;
use serde_json::{Value, json};

type V = Option<i64>;
type Row = Vec<V>;

#[derive(Clone, Copy, Debug, PartialEq)]
pub enum Engine { Mem, Disk { block: usize, rowset: usize } }
impl Engine {
    fn arg(self) -> Option<(usize, usize)> { match self { Engine::Mem => None, Engine::Disk { block, rowset } => Some((block, rowset)) } }
    fn name(self) -> String { match self { Engine::Mem => "in-memory engine".into(), Engine::Disk { block, rowset } => format!("disk engine, target_block_size={block}, target_rowset_size={rowset}") } }
}
/// In-memory engine; disk engine with tiny blocks (2 int rows per block), small blocks, and CLI-sized blocks. The target RowSet
/// size is 1 byte everywhere: the background compactor then never selects two RowSets, so the layout produced by the
/// statements is the layout that is queried and the searches are deterministic (a compaction that runs concurrently with
/// a DELETE can lose the delete on the unchanged tree - a timing-dependent defect outside the reach of these checks, see DESIGN.md).
fn engines() -> Vec<Engine> {
    vec![Engine::Mem, Engine::Disk { block: 24, rowset: 1 }, Engine::Disk { block: 64, rowset: 1 }, Engine::Disk { block: 16 << 10, rowset: 1 }]
}

type Out = Result<Vec<Vec<String>>, String>;
fn run(e: Engine, sqls: &[String], reopen: &[usize]) -> Result<Vec<Out>, String> { h::sql_session(e.arg(), sqls, reopen) }

fn sv(v: V) -> String { match v { None => "NULL".into(), Some(x) => x.to_string() } }
fn tuple(r: &Row) -> String { format!("({})", r.iter().map(|v| sv(*v)).collect::<Vec<_>>().join(",")) }
fn insert(table: &str, rows: &[Row]) -> String { format!("insert into {table} values {}", rows.iter().map(tuple).collect::<Vec<_>>().join(",")) }
fn strs(rows: &[Row]) -> Vec<Vec<String>> { rows.iter().map(|r| r.iter().map(|v| sv(*v)).collect()).collect() }
fn sorted(mut x: Vec<Vec<String>>) -> Vec<Vec<String>> { x.sort(); x }

/// Known findings (committed in /verif/known_findings.json) name SQL fragments through $VERIF_NATIVE_SKIP (a JSON list of
/// strings): a failing statement containing one of them is still run and counted, but the search goes on, so that any OTHER
/// failure is still reported.
fn skip_list() -> Vec<String> { std::env::var("VERIF_NATIVE_SKIP").ok().and_then(|s| serde_json::from_str(&s).ok()).unwrap_or_default() }
thread_local! { static KNOWN: std::cell::RefCell<Vec<Value>> = std::cell::RefCell::new(vec![]); }
fn done(tried: u64) -> Value { json!({"found": false, "tried": tried, "known_failures": KNOWN.with(|k| k.borrow().clone())}) }
fn found(tried: u64, e: Engine, sqls: &[String], reopen: &[usize], idx: usize, expected: String, got: String) -> Option<Value> {
    let stmt = sqls.get(idx).cloned().unwrap_or_default();
    // a fragment is a regular expression over the statement text
    if let Some(frag) = skip_list().into_iter().find(|f| regex::Regex::new(f).map(|r| r.is_match(&stmt)).unwrap_or(false)) {
        KNOWN.with(|k| { let mut k = k.borrow_mut(); if k.len() < 5 { k.push(json!({"fragment": frag, "statement": stmt, "engine": e.name(), "observed": format!("expected {expected}; got {got}")})); } });
        return None;
    }
    Some(found_raw(tried, e, sqls, reopen, idx, expected, got))
}
fn found_raw(tried: u64, e: Engine, sqls: &[String], reopen: &[usize], idx: usize, expected: String, got: String) -> Value {
    json!({"found": true, "tried": tried,
        "input": {"engine": e.name(), "statements": &sqls[..=idx.min(sqls.len() - 1)], "reopen_before_statement": reopen, "failing_statement": sqls.get(idx)},
        "observed": format!("expected {expected}; got {got}")})
}

// ------------------------------------------------------------------------------------------------ C12: ORDER BY / LIMIT / OFFSET
/// key spec: (column index in (a,b), descending)
fn cmp_keys(x: &Row, y: &Row, keys: &[(usize, bool)], nulls_first_asc: bool) -> std::cmp::Ordering {
    use std::cmp::Ordering::*;
    for (c, desc) in keys {
        let o = match (x[*c], y[*c]) {
            (None, None) => Equal,
            (None, Some(_)) => if nulls_first_asc { Less } else { Greater },
            (Some(_), None) => if nulls_first_asc { Greater } else { Less },
            (Some(p), Some(q)) => p.cmp(&q),
        };
        let o = if *desc { o.reverse() } else { o };
        if o != Equal { return o; }
    }
    Equal
}

pub fn order(depth: usize) -> Value {
    let mut tried = 0u64;
    // (a, b): a unique (a permutation), b with duplicates and NULLs
    let data: Vec<Row> = [(5, Some(1)), (2, None), (6, Some(0)), (0, Some(1)), (3, None), (1, Some(2)), (4, Some(0)), (8, Some(2)), (7, Some(1))]
        .iter().take(7 + depth.min(2)).map(|(a, b)| vec![Some(*a as i64), *b]).collect();
    let n = data.len();
    let tables = [("p", "a int primary key, b int", false), ("q", "b int, a int primary key", true), ("u", "a int, b int", false)];
    let splits: Vec<Vec<usize>> = vec![vec![n], vec![4, n - 4], vec![2, 3, n - 5]];
    let keysets: Vec<(&str, Vec<(usize, bool)>)> = vec![
        ("a", vec![(0, false)]), ("a desc", vec![(0, true)]), ("b, a", vec![(1, false), (0, false)]), ("b desc, a", vec![(1, true), (0, false)]),
        ("b, a desc", vec![(1, false), (0, true)]), ("b desc, a desc", vec![(1, true), (0, true)]),
    ];
    let lims: Vec<(Option<usize>, Option<usize>)> = vec![(Some(0), None), (Some(3), None), (Some(3), Some(2)), (None, Some(2)), (Some(100), Some(5)), (None, Some(100)), (Some(2), Some(0)), (Some(1), Some(n - 1)), (None, Some(n))];
    let mut nulls_first_asc: Option<bool> = None; // learned from the first ordered result, then enforced ("placed consistently")
    for e in engines() {
        for (t, cols, swapped) in tables {
            for split in &splits {
                let mut sqls = vec![format!("create table {t}({cols})")];
                let mut at = 0;
                for len in split {
                    let part: Vec<Row> = data[at..at + len].iter().map(|r| if swapped { vec![r[1], r[0]] } else { r.clone() }).collect();
                    sqls.push(insert(t, &part));
                    at += len;
                }
                let first_q = sqls.len();
                // per key set: the full ordered result, then every limit/offset; finally unordered limit/offset
                let mut plan: Vec<(usize, Option<(Option<usize>, Option<usize>)>)> = vec![];
                for (ki, (ks, _)) in keysets.iter().enumerate() {
                    sqls.push(format!("select a, b from {t} order by {ks}"));
                    plan.push((ki, None));
                    for (l, o) in &lims {
                        let mut q = format!("select a, b from {t} order by {ks}");
                        if let Some(l) = l { q += &format!(" limit {l}"); }
                        if let Some(o) = o { q += &format!(" offset {o}"); }
                        sqls.push(q);
                        plan.push((ki, Some((*l, *o))));
                    }
                }
                // a filter over a limited, ordered subquery filters the rows the limit kept
                let first_sub = sqls.len();
                let subs: Vec<(usize, usize, usize, i64)> = vec![(0, 2, 0, 1), (0, 3, 1, 2), (1, 3, 0, 4), (2, 4, 1, 3)];
                for (ki, l, o, c) in &subs {
                    sqls.push(format!("select a, b from (select a, b from {t} order by {} limit {l} offset {o}) s where a > {c}", keysets[*ki].0));
                }
                // ORDER BY a key that is not in the select list
                let first_hidden = sqls.len();
                sqls.push(format!("select b from {t} order by a"));
                sqls.push(format!("select b from {t} order by a desc"));
                let first_unordered = sqls.len();
                for (l, o) in &lims {
                    let mut q = format!("select a, b from {t}");
                    if let Some(l) = l { q += &format!(" limit {l}"); }
                    if let Some(o) = o { q += &format!(" offset {o}"); }
                    sqls.push(q);
                }
                tried += (sqls.len() - first_q) as u64;
                let outs = match run(e, &sqls, &[]) { Ok(o) => o, Err(err) => return found_raw(tried, e, &sqls, &[], sqls.len() - 1, "the session to run".into(), err) };
                for (i, o) in outs.iter().enumerate() {
                    if let Err(err) = o { if let Some(v) = found(tried, e, &sqls, &[], i, "statement to succeed".into(), err.clone()) { return v; } }
                }
                let model = sorted(strs(&data));
                let mut full: Vec<Vec<String>> = vec![];
                for (j, (ki, lim)) in plan.iter().enumerate() {
                    let idx = first_q + j;
                    let got = outs[idx].clone().unwrap();
                    match lim {
                        None => {
                            if sorted(got.clone()) != model {
                                if let Some(v) = found(tried, e, &sqls, &[], idx, format!("a permutation of the {n} rows"), format!("{got:?}")) { return v; }
                            }
                            let rows: Vec<Row> = got.iter().map(|r| r.iter().map(|s| s.parse::<i64>().ok()).collect()).collect();
                            if nulls_first_asc.is_none() && keysets[*ki].1[0].0 == 1 {
                                let first_null = rows[0][1].is_none();
                                nulls_first_asc = Some(first_null != keysets[*ki].1[0].1);
                            }
                            let nf = nulls_first_asc.unwrap_or(false);
                            for w in rows.windows(2) {
                                if cmp_keys(&w[0], &w[1], &keysets[*ki].1, nf) == std::cmp::Ordering::Greater {
                                    if let Some(v) = found(tried, e, &sqls, &[], idx, format!("rows sorted by ({}) with NULLs {} in ascending order", keysets[*ki].0, if nf { "first" } else { "last" }), format!("{got:?}")) { return v; }
                                }
                            }
                            full = got;
                        }
                        Some((l, o)) => {
                            let o = o.unwrap_or(0).min(full.len());
                            let hi = l.map(|l| (o + l).min(full.len())).unwrap_or(full.len());
                            let want = full[o..hi].to_vec();
                            if got != want {
                                if let Some(v) = found(tried, e, &sqls, &[], idx, format!("rows {o}..{hi} of the same query without LIMIT/OFFSET: {want:?}"), format!("{got:?}")) { return v; }
                            }
                        }
                    }
                }
                for (j, (ki, l, o, c)) in subs.iter().enumerate() {
                    let idx = first_sub + j;
                    let full = outs[first_q + ki * (lims.len() + 1)].clone().unwrap();
                    let lo = (*o).min(full.len());
                    let hi = (lo + l).min(full.len());
                    let want: Vec<Vec<String>> = full[lo..hi].iter().filter(|r| r[0].parse::<i64>().map(|a| a > *c).unwrap_or(false)).cloned().collect();
                    let got = outs[idx].clone().unwrap();
                    if sorted(got.clone()) != sorted(want.clone()) {
                        if let Some(v) = found(tried, e, &sqls, &[], idx, format!("the rows with a > {c} among rows {lo}..{hi} of the ordered subquery: {want:?}"), format!("{got:?}")) { return v; }
                    }
                }
                for (j, desc) in [false, true].into_iter().enumerate() {
                    let mut by_a = data.clone();
                    by_a.sort_by_key(|r| r[0]);
                    if desc { by_a.reverse(); }
                    let want: Vec<Vec<String>> = by_a.iter().map(|r| vec![sv(r[1])]).collect();
                    let got = outs[first_hidden + j].clone().unwrap();
                    if got != want {
                        if let Some(v) = found(tried, e, &sqls, &[], first_hidden + j, format!("the b values in the order of a{}: {want:?}", if desc { " descending" } else { "" }), format!("{got:?}")) { return v; }
                    }
                }
                for (j, (l, o)) in lims.iter().enumerate() {
                    let idx = first_unordered + j;
                    let got = outs[idx].clone().unwrap();
                    let want_n = l.unwrap_or(usize::MAX).min(n.saturating_sub(o.unwrap_or(0)));
                    let mut pool = model.clone();
                    let all_in = got.iter().all(|r| match pool.iter().position(|p| p == r) { Some(p) => { pool.remove(p); true } None => false });
                    if got.len() != want_n || !all_in {
                        if let Some(v) = found(tried, e, &sqls, &[], idx, format!("{want_n} distinct rows of the table"), format!("{} rows: {got:?}", got.len())) { return v; }
                    }
                }
            }
        }
    }
    // the number of rows of a limited (sub)query when no column of it is needed: min(n, max(0, N - m))
    for e in [Engine::Mem, Engine::Disk { block: 64, rowset: 1 }] {
        let mut sqls: Vec<String> = vec!["create table lc(a int, b int)".into(), "insert into lc values (1,1),(2,2),(3,3),(4,4)".into(), "insert into lc values (5,5),(6,6),(7,7)".into()];
        let q0 = sqls.len();
        let mut wants: Vec<usize> = vec![];
        for (l, o) in [(1usize, 0usize), (3, 2), (5, 0), (7, 0), (9, 3), (2, 6), (4, 7), (0, 0)] {
            sqls.push(format!("select count(*) from (select * from lc limit {l} offset {o}) s"));
            wants.push(l.min(7usize.saturating_sub(o)));
        }
        sqls.push("select count(*) from lc where exists (select * from lc limit 2)".into()); wants.push(7);
        tried += wants.len() as u64;
        let outs = match run(e, &sqls, &[]) { Ok(o) => o, Err(err) => return found_raw(tried, e, &sqls, &[], sqls.len() - 1, "the session to run".into(), err) };
        for (j, w) in wants.iter().enumerate() {
            match &outs[q0 + j] {
                Ok(got) if *got == vec![vec![w.to_string()]] => {}
                other => { if let Some(v) = found(tried, e, &sqls, &[], q0 + j, format!("[[{w}]]"), format!("{other:?}")) { return v; } }
            }
        }
    }
    // LIMIT / OFFSET over a query with window functions (running aggregates over the input order): the rows returned belong
    // to the full result, and there are min(n, max(0, N - m)) of them
    for e in [Engine::Mem, Engine::Disk { block: 64, rowset: 1 }] {
        let sqls: Vec<String> = vec![
            "create table wn(a int primary key, b int)".into(), "insert into wn values (1, 10), (2, 20), (3, 30)".into(), "insert into wn values (4, 40), (5, 50)".into(),
            "select a, row_number() over (), sum(b) over () from wn".into(),
            "select a, row_number() over (), sum(b) over () from wn limit 2".into(),
            "select a, row_number() over (), sum(b) over () from wn limit 2 offset 2".into(),
            "select a, row_number() over (), sum(b) over () from wn offset 4".into(),
            "select a, row_number() over (), sum(b) over () from wn limit 10 offset 1".into(),
        ];
        tried += 4;
        let outs = match run(e, &sqls, &[]) { Ok(o) => o, Err(err) => return found_raw(tried, e, &sqls, &[], sqls.len() - 1, "the session to run".into(), err) };
        if let Ok(full) = &outs[3] {
            for (idx, want_n) in [(4usize, 2usize), (5, 2), (6, 1), (7, 4)] {
                match &outs[idx] {
                    Ok(got) if got.len() == want_n && got.iter().all(|r| full.contains(r)) => {}
                    other => { if let Some(v) = found(tried, e, &sqls, &[], idx, format!("{want_n} rows out of the full result {full:?}"), format!("{other:?}")) { return v; } }
                }
            }
        }
    }
    // statements that arrive in ONE batch are planned with the statistics taken before the batch: the table still looks empty
    // to the optimizer when the SELECT is planned, every plan costs 0 and the extractor may pick any member of a class (H42)
    for e in [Engine::Disk { block: 64, rowset: 1 }, Engine::Mem] {
        let vals = [5, 3, 9, 1, 7, 2, 8, 4, 6, 10, 12, 11];
        let ins = format!("insert into sb values {}", vals.iter().map(|a| format!("({a}, {})", a % 3)).collect::<Vec<_>>().join(","));
        for (q, cols) in [("select a, count(*) from sb group by a order by a", 2usize), ("select a, b from sb order by a", 2), ("select a from sb where b < 2 order by a desc", 1)] {
            let sqls = vec!["create table sb(a int primary key, b int)".to_string(), format!("{ins}; {q}")];
            tried += 1;
            let outs = match run(e, &sqls, &[]) { Ok(o) => o, Err(err) => return found_raw(tried, e, &sqls, &[], 1, "the session to run".into(), err) };
            match &outs[1] {
                Ok(rows) => {
                    // the batch returns the INSERT's count row, then the rows of the SELECT
                    let got: Vec<i64> = rows.iter().skip(1).filter(|r| r.len() == cols).filter_map(|r| r[0].parse().ok()).collect();
                    let mut want: Vec<i64> = vals.iter().filter(|a| !q.contains("b < 2") || *a % 3 < 2).map(|a| *a as i64).collect();
                    want.sort(); if q.contains("desc") { want.reverse(); }
                    if got != want { if let Some(v) = found(tried, e, &sqls, &[], 1, format!("the keys in order: {want:?}"), format!("{got:?}")) { return v; } }
                }
                Err(err) => { if let Some(v) = found(tried, e, &sqls, &[], 1, "an ordered result".into(), format!("error: {err}")) { return v; } }
            }
        }
    }
    // more rows than one processing window (1024): full sort on two keys, LIMIT / OFFSET far into the order
    for e in [Engine::Mem, Engine::Disk { block: 4096, rowset: 1 }] {
        let nrows = 2500i64;
        let rows: Vec<Row> = (0..nrows).map(|i| vec![Some((i * 7919) % nrows), Some(i % 3)]).collect();
        let mut sqls = vec!["create table g(a int, b int)".to_string()];
        for part in rows.chunks(900) { sqls.push(insert("g", part)); }
        let q0 = sqls.len();
        let key_lists: Vec<(&str, Vec<(usize, bool)>)> = vec![("b desc, a", vec![(1, true), (0, false)]), ("a desc", vec![(0, true)])];
        let mut wants: Vec<Vec<Vec<String>>> = vec![];
        for (ks, keys) in &key_lists {
            let mut m = rows.clone(); m.sort_by(|x, y| cmp_keys(x, y, keys, true));
            sqls.push(format!("select a, b from g order by {ks}")); wants.push(strs(&m));
            sqls.push(format!("select a, b from g order by {ks} limit 5 offset 1200")); wants.push(strs(&m[1200..1205]));
            sqls.push(format!("select a, b from g order by {ks} limit 1500 offset 900")); wants.push(strs(&m[900..2400]));
            sqls.push(format!("select a, b from g order by {ks} offset 2490")); wants.push(strs(&m[2490..]));
        }
        tried += wants.len() as u64;
        let outs = match run(e, &sqls, &[]) { Ok(o) => o, Err(err) => return found_raw(tried, e, &sqls[..1], &[], 0, "the session (2500-row ORDER BY) to run".into(), err) };
        for (j, want) in wants.iter().enumerate() {
            let brief = |v: &Vec<Vec<String>>| format!("{} rows, first {:?}, last {:?}", v.len(), v.first(), v.last());
            match &outs[q0 + j] {
                Ok(got) if got == want => {}
                Ok(got) => { let at = got.iter().zip(want.iter()).position(|(x, y)| x != y); return found_raw(tried, e, &[sqls[0].clone(), "insert into g: 2500 rows (a = (i * 7919) % 2500, b = i % 3) in 3 statements".into(), sqls[q0 + j].clone()], &[], 2, brief(want), format!("{}; first difference at row {:?}", brief(got), at)); },
                Err(err) => return found_raw(tried, e, &[sqls[q0 + j].clone()], &[], 0, brief(want), format!("error: {err}")),
            }
        }
    }
    // a key list LONGER than the order the input already has, with ties on that prefix: a primary key with duplicate values
    // (they are not rejected), rows in two RowSets; and an ordered, limited subquery ordered again by more keys
    for e in engines() {
        let part1: Vec<Row> = vec![vec![Some(1), Some(9)], vec![Some(0), Some(5)], vec![Some(2), Some(7)], vec![Some(1), Some(3)]];
        let part2: Vec<Row> = vec![vec![Some(1), Some(5)], vec![Some(0), Some(1)], vec![Some(2), Some(2)], vec![Some(0), Some(8)]];
        let all: Vec<Row> = part1.iter().chain(part2.iter()).cloned().collect();
        for (t, cols) in [("dk", "a int primary key, b int"), ("dn", "a int, b int")] {
            let mut sqls = vec![format!("create table {t}({cols})"), insert(t, &part1), insert(t, &part2)];
            let q0 = sqls.len();
            let lists: Vec<(&str, Vec<(usize, bool)>)> = vec![("a, b", vec![(0, false), (1, false)]), ("a, b desc", vec![(0, false), (1, true)]), ("a desc, b", vec![(0, true), (1, false)])];
            let mut wants: Vec<Vec<Vec<String>>> = vec![];
            for (ks, keys) in &lists {
                let mut m = all.clone(); m.sort_by(|x, y| cmp_keys(x, y, keys, true));
                sqls.push(format!("select a, b from {t} order by {ks}")); wants.push(strs(&m));
                sqls.push(format!("select a, b from {t} order by {ks} limit 3 offset 2")); wants.push(strs(&m[2..5]));
                // the six rows with a <= 1, ordered by a only, then ordered again by the longer list
                let mut six: Vec<Row> = all.iter().filter(|r| r[0] <= Some(1)).cloned().collect(); six.sort_by(|x, y| cmp_keys(x, y, keys, true));
                if !keys[0].1 { sqls.push(format!("select a, b from (select a, b from {t} order by a limit 6) s order by {ks}")); wants.push(strs(&six)); }
            }
            tried += wants.len() as u64;
            let outs = match run(e, &sqls, &[]) { Ok(o) => o, Err(err) => return found_raw(tried, e, &sqls, &[], sqls.len() - 1, "the session to run".into(), err) };
            for (j, want) in wants.iter().enumerate() {
                match &outs[q0 + j] {
                    Ok(got) if got == want => {}
                    Ok(got) => { if let Some(v) = found(tried, e, &sqls, &[], q0 + j, format!("{want:?}"), format!("{got:?}")) { return v; } },
                    Err(err) => { if let Some(v) = found(tried, e, &sqls, &[], q0 + j, format!("{want:?}"), format!("error: {err}")) { return v; } },
                }
            }
        }
    }
    done(tried)
}

// ------------------------------------------------------------------------------------------------ C13: key ranges
#[derive(Clone, Copy, PartialEq)]
enum KeyKind { Int, BigInt, Str }
/// a key constant as SQL text; varchar keys are 'kNN' (zero padded, so text order == numeric order) and 'a' sorts below all of them
fn kc(kind: KeyKind, c: i64) -> String { match kind { KeyKind::Str => if c < 0 { "'a'".into() } else { format!("'k{c:02}'") }, _ => c.to_string() } }
fn kout(kind: KeyKind, c: i64) -> String { match kind { KeyKind::Str => format!("k{c:02}"), _ => c.to_string() } }

pub fn range(depth: usize) -> Value {
    let mut tried = 0u64;
    let nkeys = 12 + 4 * depth.min(2) as i64;
    // model rows: (k, v, w) with k = 2i (so odd constants are absent keys), v = i % 3, w = 100 + i
    let model: Vec<(i64, i64, i64)> = (0..nkeys).map(|i| (2 * i, i % 3, 100 + i)).collect();
    let kmax = 2 * (nkeys - 1);
    // table layouts: key first / key in the middle / bigint key / varchar key in the middle
    let tables: Vec<(&str, &str, Vec<char>, KeyKind)> = vec![
        ("t0", "k int primary key, v int, w int", vec!['k', 'v', 'w'], KeyKind::Int),
        ("t1", "v int, k int primary key, w int", vec!['v', 'k', 'w'], KeyKind::Int),
        ("t2", "w int, v int, k int primary key", vec!['w', 'v', 'k'], KeyKind::Int),
        ("t3", "k bigint primary key, v int, w int", vec!['k', 'v', 'w'], KeyKind::BigInt),
        ("t4", "v int, k varchar primary key, w int", vec!['v', 'k', 'w'], KeyKind::Str),
        // keys declared by a table constraint; in the composite one k is NOT the leading key column
        ("t5", "k int, v int, w int, primary key(k)", vec!['k', 'v', 'w'], KeyKind::Int),
        ("t6", "v int, k int, w int, primary key(v, k)", vec!['v', 'k', 'w'], KeyKind::Int),
    ];
    let consts = [-1i64, 0, 5, 6, kmax - 1, kmax, kmax + 1];
    let mut preds: Vec<(String, Box<dyn Fn(i64, i64, KeyKind) -> bool>, Box<dyn Fn(KeyKind) -> String>)> = vec![];
    for c in consts {
        for op in ["=", "<", "<=", ">", ">="] {
            let f: Box<dyn Fn(i64, i64, KeyKind) -> bool> = match op { "=" => Box::new(move |k, _, _| k == c), "<" => Box::new(move |k, _, _| k < c), "<=" => Box::new(move |k, _, _| k <= c), ">" => Box::new(move |k, _, _| k > c), _ => Box::new(move |k, _, _| k >= c) };
            preds.push((format!("k {op} {c}"), f, Box::new(move |kind| format!("k {op} {}", kc(kind, c)))));
        }
        // constant on the left
        preds.push((format!("{c} < k"), Box::new(move |k, _, _| c < k), Box::new(move |kind| format!("{} < k", kc(kind, c)))));
        preds.push((format!("{c} >= k"), Box::new(move |k, _, _| c >= k), Box::new(move |kind| format!("{} >= k", kc(kind, c)))));
    }
    for (c1, c2) in [(2i64, 10i64), (3, 9), (10, 2), (6, 6), (-5, kmax + 5), (kmax, kmax)] {
        preds.push((format!("k > {c1} and k < {c2}"), Box::new(move |k, _, _| k > c1 && k < c2), Box::new(move |kind| format!("k > {} and k < {}", kc(kind, c1), kc(kind, c2)))));
        preds.push((format!("k >= {c1} and k <= {c2}"), Box::new(move |k, _, _| k >= c1 && k <= c2), Box::new(move |kind| format!("k >= {} and k <= {}", kc(kind, c1), kc(kind, c2)))));
        preds.push((format!("k >= {c1} and k < {c2}"), Box::new(move |k, _, _| k >= c1 && k < c2), Box::new(move |kind| format!("k >= {} and k < {}", kc(kind, c1), kc(kind, c2)))));
        preds.push((format!("k > {c1} and k < {c2} and v = 1"), Box::new(move |k, v, _| k > c1 && k < c2 && v == 1), Box::new(move |kind| format!("k > {} and k < {} and v = 1", kc(kind, c1), kc(kind, c2)))));
        preds.push((format!("k >= {c1} and v <> 0"), Box::new(move |k, v, _| k >= c1 && v != 0), Box::new(move |kind| format!("k >= {} and v <> 0", kc(kind, c1)))));
    }
    // disjunctions and negations over the key (not a single range: must stay a filter, or be split correctly)
    for (c1, c2) in [(3i64, 10i64), (6, 6), (10, 3)] {
        preds.push((format!("k < {c1} or k > {c2}"), Box::new(move |k, _, _| k < c1 || k > c2), Box::new(move |kind| format!("k < {} or k > {}", kc(kind, c1), kc(kind, c2)))));
        preds.push((format!("k = {c1} or k = {c2}"), Box::new(move |k, _, _| k == c1 || k == c2), Box::new(move |kind| format!("k = {} or k = {}", kc(kind, c1), kc(kind, c2)))));
        preds.push((format!("not (k < {c1})"), Box::new(move |k, _, _| !(k < c1)), Box::new(move |kind| format!("not (k < {})", kc(kind, c1)))));
        preds.push((format!("not (k >= {c1} and k <= {c2})"), Box::new(move |k, _, _| !(k >= c1 && k <= c2)), Box::new(move |kind| format!("not (k >= {} and k <= {})", kc(kind, c1), kc(kind, c2)))));
        preds.push((format!("k >= {c1} and (v = 1 or k > {c2})"), Box::new(move |k, v, _| k >= c1 && (v == 1 || k > c2)), Box::new(move |kind| format!("k >= {} and (v = 1 or k > {})", kc(kind, c1), kc(kind, c2)))));
        preds.push((format!("k <> {c1}"), Box::new(move |k, _, _| k != c1), Box::new(move |kind| format!("k <> {}", kc(kind, c1)))));
    }
    // an equality together with a bound at / next to the same constant (point ranges, contradictions)
    for c in [6i64, 5, 0, kmax] {
        for d in [-1i64, 0, 1] {
            let b = c + d;
            for op in ["<", "<=", ">", ">="] {
                let f: Box<dyn Fn(i64, i64, KeyKind) -> bool> = match op {
                    "<" => Box::new(move |k, _, _| k == c && k < b), "<=" => Box::new(move |k, _, _| k == c && k <= b),
                    ">" => Box::new(move |k, _, _| k == c && k > b), _ => Box::new(move |k, _, _| k == c && k >= b) };
                preds.push((format!("k = {c} and k {op} {b}"), f, Box::new(move |kind| format!("k = {} and k {op} {}", kc(kind, c), kc(kind, b)))));
            }
        }
        preds.push((format!("k = {c} and k = {c}"), Box::new(move |k, _, _| k == c), Box::new(move |kind| format!("k = {} and k = {}", kc(kind, c), kc(kind, c)))));
        preds.push((format!("k = {c} and k = {}", c + 2), Box::new(move |_, _, _| false), Box::new(move |kind| format!("k = {} and k = {}", kc(kind, c), kc(kind, c + 2)))));
        preds.push((format!("{c} < k and k = {c} and v >= 0"), Box::new(move |_, _, _| false), Box::new(move |kind| format!("{} < k and k = {} and v >= 0", kc(kind, c), kc(kind, c)))));
    }
    let projections = ["*", "v", "k", "w, k"];
    for e in engines() {
        if e == Engine::Mem && depth < 2 { continue; } // range push-down exists on the disk engine only
        for (t, cols, order, kind) in &tables {
            for with_delete in [false, true] {
                let render = |r: &(i64, i64, i64), proj: &str| -> Vec<String> {
                    let cell = |c: char| match c { 'k' => kout(*kind, r.0), 'v' => r.1.to_string(), _ => r.2.to_string() };
                    match proj { "*" => order.iter().map(|c| cell(*c)).collect(), "v" => vec![cell('v')], "k" => vec![cell('k')], _ => vec![cell('w'), cell('k')] }
                };
                let lit = |r: &(i64, i64, i64)| format!("({})", order.iter().map(|c| match c { 'k' => kc(*kind, r.0), 'v' => r.1.to_string(), _ => r.2.to_string() }).collect::<Vec<_>>().join(","));
                let mut sqls = vec![format!("create table {t}({cols})")];
                // two inserts with interleaved keys (two RowSets whose key ranges overlap), a third with the tail
                let head = &model[..model.len() - 3];
                for parity in 0..2 {
                    let part: Vec<String> = head.iter().enumerate().filter(|(i, _)| i % 2 == parity).map(|(_, r)| lit(r)).collect();
                    sqls.push(format!("insert into {t} values {}", part.join(",")));
                }
                sqls.push(format!("insert into {t} values {}", model[model.len() - 3..].iter().map(lit).collect::<Vec<_>>().join(",")));
                let mut live: Vec<(i64, i64, i64)> = model.clone();
                if with_delete {
                    sqls.push(format!("delete from {t} where w = 103 or w = 104 or w = 108"));
                    live.retain(|r| ![103, 104, 108].contains(&r.2));
                }
                let first_q = sqls.len();
                for (_, _, sql) in &preds { for p in projections { sqls.push(format!("select {p} from {t} where {}", sql(*kind))); } }
                tried += (sqls.len() - first_q) as u64;
                let outs = match run(e, &sqls, &[]) { Ok(o) => o, Err(err) => return found_raw(tried, e, &sqls, &[], sqls.len() - 1, "the session to run".into(), err) };
                for (i, o) in outs.iter().enumerate().take(first_q) {
                    if let Err(err) = o { if let Some(v) = found(tried, e, &sqls, &[], i, "statement to succeed".into(), err.clone()) { return v; } }
                }
                let mut idx = first_q;
                for (_, f, _) in &preds {
                    for p in projections {
                        let want = sorted(live.iter().filter(|r| f(r.0, r.1, *kind)).map(|r| render(r, p)).collect());
                        match &outs[idx] {
                            Ok(got) if sorted(got.clone()) == want => {}
                            Ok(got) => { if let Some(v) = found(tried, e, &sqls[..], &[], idx, format!("the {} rows a full scan followed by the predicate gives: {want:?}", want.len()), format!("{} rows: {:?}", got.len(), sorted(got.clone()))) { return v; } },
                            Err(err) => { if let Some(v) = found(tried, e, &sqls[..], &[], idx, format!("{} rows", want.len()), format!("error: {err}")) { return v; } },
                        }
                        idx += 1;
                    }
                }
            }
        }
    }
    done(tried)
}

// ------------------------------------------------------------------------------------------------ C02: aggregates
fn agg_row(vals: &[V], count_star: usize) -> Vec<String> {
    let nn: Vec<i64> = vals.iter().flatten().cloned().collect();
    let mut d = nn.clone(); d.sort(); d.dedup();
    vec![count_star.to_string(), nn.len().to_string(),
         if nn.is_empty() { "NULL".into() } else { nn.iter().sum::<i64>().to_string() },
         nn.iter().min().map(|x| x.to_string()).unwrap_or("NULL".into()),
         nn.iter().max().map(|x| x.to_string()).unwrap_or("NULL".into()),
         d.len().to_string()]
}

pub fn agg(depth: usize) -> Value {
    let mut tried = 0u64;
    let dom: Vec<Row> = { let mut d = vec![]; for k in [None, Some(0), Some(1)] { for v in [None, Some(1), Some(2)] { d.push(vec![k, v]); } } d };
    let maxlen = 2 + depth.min(1);
    let mut datasets: Vec<Vec<Row>> = vec![vec![]];
    let mut frontier: Vec<Vec<Row>> = vec![vec![]];
    for _ in 0..maxlen {
        let mut next = vec![];
        for ds in &frontier { for r in &dom { let mut x = ds.clone(); x.push(r.clone()); next.push(x); } }
        datasets.extend(next.iter().cloned());
        frontier = next;
    }
    const AGGS: &str = "count(*), count(v), sum(v), min(v), max(v), count(distinct v)";
    for e in [Engine::Mem, Engine::Disk { block: 24, rowset: 1 }] {
        for (di, ds) in datasets.iter().enumerate() {
            if e != Engine::Mem && di % (if depth >= 2 { 3 } else { 17 }) != 0 { continue; } // the disk engine is slower: sample
            let mut sqls = vec!["create table g(k int, v int)".to_string()];
            // one insert per row: one chunk / RowSet per row, so that aggregation crosses chunk boundaries
            for r in ds { sqls.push(insert("g", &[r.clone()])); }
            let q0 = sqls.len();
            sqls.push(format!("select {AGGS} from g"));
            sqls.push(format!("select {AGGS} from g where v > 100"));
            sqls.push(format!("select k, {AGGS} from g group by k"));
            sqls.push(format!("select k, {AGGS} from g group by k order by k"));
            sqls.push(format!("select {AGGS} from g where k is null"));
            sqls.push("select distinct k, v from g".to_string());
            sqls.push("select sum(v + k), count(v + k) from g".to_string());
            sqls.push("select distinct k from g".to_string());
            sqls.push("select k, count(*) from g group by k having count(*) > 1".to_string());
            sqls.push("select k, v, count(*) from g group by k, v".to_string());
            sqls.push("select k + 1, count(v), count(*) from g group by k + 1".to_string());
            sqls.push("select count(*), count(distinct k), min(k), max(k) from g where v is not null".to_string());
            tried += 12;
            let outs = match run(e, &sqls, &[]) { Ok(o) => o, Err(err) => return found_raw(tried, e, &sqls, &[], sqls.len() - 1, "the session to run".into(), err) };
            for (i, o) in outs.iter().enumerate() { if let Err(err) = o { if let Some(v) = found(tried, e, &sqls, &[], i, "statement to succeed".into(), err.clone()) { return v; } } }
            let vs: Vec<V> = ds.iter().map(|r| r[1]).collect();
            let groups = |ds: &Vec<Row>| -> Vec<Vec<String>> {
                let mut ks: Vec<V> = ds.iter().map(|r| r[0]).collect(); ks.sort(); ks.dedup();
                ks.iter().map(|k| { let g: Vec<V> = ds.iter().filter(|r| r[0] == *k).map(|r| r[1]).collect(); let mut row = vec![sv(*k)]; row.extend(agg_row(&g, g.len())); row }).collect()
            };
            let nullk: Vec<V> = ds.iter().filter(|r| r[0].is_none()).map(|r| r[1]).collect();
            let mut distinct = strs(ds); distinct.sort(); distinct.dedup();
            let sums: Vec<V> = ds.iter().map(|r| match (r[0], r[1]) { (Some(a), Some(b)) => Some(a + b), _ => None }).collect();
            let sum_row = { let a = agg_row(&sums, sums.len()); vec![a[2].clone(), a[1].clone()] };
            let mut ks: Vec<V> = ds.iter().map(|r| r[0]).collect(); ks.sort(); ks.dedup();
            let distinct_k: Vec<Vec<String>> = ks.iter().map(|k| vec![sv(*k)]).collect();
            let having: Vec<Vec<String>> = ks.iter().map(|k| (k, ds.iter().filter(|r| r[0] == *k).count())).filter(|(_, n)| *n > 1).map(|(k, n)| vec![sv(*k), n.to_string()]).collect();
            let by_kv: Vec<Vec<String>> = { let mut d = strs(ds); d.sort(); d.dedup(); d.into_iter().map(|r| { let n = strs(ds).iter().filter(|x| **x == r).count(); vec![r[0].clone(), r[1].clone(), n.to_string()] }).collect() };
            let by_k1: Vec<Vec<String>> = ks.iter().map(|k| { let g: Vec<&Row> = ds.iter().filter(|r| r[0] == *k).collect(); vec![sv(k.map(|x| x + 1)), g.iter().filter(|r| r[1].is_some()).count().to_string(), g.len().to_string()] }).collect();
            let nn: Vec<V> = ds.iter().filter(|r| r[1].is_some()).map(|r| r[0]).collect();
            let nn_row = { let a = agg_row(&nn, nn.len()); vec![a[0].clone(), a[5].clone(), a[3].clone(), a[4].clone()] };
            let wants: Vec<Vec<Vec<String>>> = vec![
                vec![agg_row(&vs, vs.len())], vec![agg_row(&[], 0)], sorted(groups(ds)), sorted(groups(ds)), vec![agg_row(&nullk, nullk.len())], distinct, vec![sum_row],
                distinct_k, having, by_kv, by_k1, vec![nn_row]];
            for (j, want) in wants.iter().enumerate() {
                let got = outs[q0 + j].clone().unwrap();
                if sorted(got.clone()) != sorted(want.clone()) {
                    if let Some(v) = found(tried, e, &sqls, &[], q0 + j, format!("{want:?}"), format!("{got:?}")) { return v; }
                }
            }
        }
    }
    // MIN / MAX / COUNT DISTINCT / DISTINCT over strings and booleans, global and grouped, NULLs skipped
    for e in [Engine::Mem, Engine::Disk { block: 64, rowset: 1 }] {
        let data: Vec<(i64, Option<&str>, Option<bool>)> = vec![(0, Some("pear"), Some(true)), (0, None, Some(false)), (0, Some("apple"), None), (1, Some("Zoe"), Some(true)), (1, Some("apple"), Some(true)), (2, None, None), (0, Some(""), Some(false)), (1, Some("pear"), None)];
        let lit = |r: &(i64, Option<&str>, Option<bool>)| format!("({}, {}, {})", r.0, r.1.map(|s| format!("'{s}'")).unwrap_or("NULL".into()), r.2.map(|b| b.to_string()).unwrap_or("NULL".into()));
        let mut sqls = vec!["create table sb(k int, s varchar, b boolean)".to_string()];
        for part in data.chunks(3) { sqls.push(format!("insert into sb values {}", part.iter().map(lit).collect::<Vec<_>>().join(","))); }
        let q0 = sqls.len();
        let row_for = |rows: &Vec<&(i64, Option<&str>, Option<bool>)>| -> Vec<String> {
            let ss: Vec<&str> = rows.iter().filter_map(|r| r.1).collect();
            let bs: Vec<bool> = rows.iter().filter_map(|r| r.2).collect();
            // the result printer shows an empty string as (empty)
            let o = |x: Option<String>| x.map(|s| if s.is_empty() { "(empty)".to_string() } else { s }).unwrap_or("NULL".into());
            let mut ds = ss.clone(); ds.sort(); ds.dedup();
            vec![o(ss.iter().min().map(|s| s.to_string())), o(ss.iter().max().map(|s| s.to_string())), ds.len().to_string(), ss.len().to_string(), o(bs.iter().min().map(|b| b.to_string())), o(bs.iter().max().map(|b| b.to_string()))]
        };
        const SB: &str = "min(s), max(s), count(distinct s), count(s), min(b), max(b)";
        sqls.push(format!("select {SB} from sb"));
        sqls.push(format!("select k, {SB} from sb group by k"));
        sqls.push(format!("select {SB} from sb where k > 5"));
        sqls.push("select distinct s from sb".to_string());
        sqls.push("select distinct b from sb".to_string());
        tried += 5;
        let outs = match run(e, &sqls, &[]) { Ok(o) => o, Err(err) => return found_raw(tried, e, &sqls, &[], sqls.len() - 1, "the session to run".into(), err) };
        let all: Vec<&(i64, Option<&str>, Option<bool>)> = data.iter().collect();
        let grouped: Vec<Vec<String>> = [0i64, 1, 2].iter().map(|k| { let g: Vec<&(i64, Option<&str>, Option<bool>)> = data.iter().filter(|r| r.0 == *k).collect(); let mut row = vec![k.to_string()]; row.extend(row_for(&g)); row }).collect();
        let mut ds: Vec<Vec<String>> = data.iter().map(|r| vec![r.1.map(|s| if s.is_empty() { "(empty)".to_string() } else { s.to_string() }).unwrap_or("NULL".into())]).collect(); ds.sort(); ds.dedup();
        let mut db: Vec<Vec<String>> = data.iter().map(|r| vec![r.2.map(|b| b.to_string()).unwrap_or("NULL".into())]).collect(); db.sort(); db.dedup();
        let wants: Vec<Vec<Vec<String>>> = vec![vec![row_for(&all)], sorted(grouped), vec![row_for(&vec![])], ds, db];
        for (j, want) in wants.iter().enumerate() {
            match &outs[q0 + j] {
                Ok(got) if sorted(got.clone()) == sorted(want.clone()) => {}
                Ok(got) => { if let Some(v) = found(tried, e, &sqls, &[], q0 + j, format!("{want:?}"), format!("{:?}", sorted(got.clone()))) { return v; } }
                Err(err) => { if let Some(v) = found(tried, e, &sqls, &[], q0 + j, format!("{want:?}"), format!("error: {err}")) { return v; } }
            }
        }
    }
    // groups whose rows straddle the executors' 1024-row chunks: sort aggregation over an ordered subquery, hash aggregation,
    // and a scan of several RowSets; the group key changes every 700 rows
    for e in [Engine::Mem, Engine::Disk { block: 16 << 10, rowset: 1 }] {
        let n = 2500i64;
        let data: Vec<Row> = (0..n).map(|i| vec![Some((i * 7919) % n / 700), if i % 11 == 0 { None } else { Some(i % 5) }]).collect();
        let mut sqls = vec!["create table big(k int, v int)".to_string()];
        for part in data.chunks(900) { sqls.push(insert("big", part)); }
        let q0 = sqls.len();
        sqls.push(format!("select k, {AGGS} from (select k, v from big order by k) t group by k"));
        sqls.push(format!("select k, {AGGS} from big group by k"));
        sqls.push(format!("select k, {AGGS} from (select k, v from big order by k desc) t group by k order by k"));
        tried += 3;
        let outs = match run(e, &sqls, &[]) { Ok(o) => o, Err(err) => return found_raw(tried, e, &sqls, &[], sqls.len() - 1, "the session to run".into(), err) };
        let mut ks: Vec<V> = data.iter().map(|r| r[0]).collect(); ks.sort(); ks.dedup();
        let want: Vec<Vec<String>> = sorted(ks.iter().map(|k| { let g: Vec<V> = data.iter().filter(|r| r[0] == *k).map(|r| r[1]).collect(); let mut row = vec![sv(*k)]; row.extend(agg_row(&g, g.len())); row }).collect());
        for j in 0..3 {
            // the replay script is the schema, a generator description and the query (the literal inserts are 2500 rows long)
            let script = vec![sqls[0].clone(), format!("-- insert rows (k, v) = (((i * 7919) % {n}) / 700, NULL if i % 11 == 0 else i % 5) for i in 0..{n}, in inserts of 900 rows"), sqls[q0 + j].clone()];
            match &outs[q0 + j] {
                Ok(got) if sorted(got.clone()) == want => {}
                Ok(got) => { if let Some(v) = found(tried, e, &script, &[], 2, format!("{want:?}"), format!("{:?}", sorted(got.clone()))) { return v; } }
                Err(err) => { if let Some(v) = found(tried, e, &script, &[], 2, format!("{want:?}"), format!("error: {err}")) { return v; } }
            }
        }
    }
    done(tried)
}

// ------------------------------------------------------------------------------------------------ C02: joins and subqueries
fn join_oracle(l: &[Row], r: &[Row], kind: &str, on: &dyn Fn(&Row, &Row) -> Option<bool>) -> Vec<Vec<String>> {
    let mut out: Vec<Row> = vec![];
    let mut r_matched = vec![false; r.len()];
    for x in l {
        let mut any = false;
        for (j, y) in r.iter().enumerate() {
            if on(x, y) == Some(true) { any = true; r_matched[j] = true; out.push([x.clone(), y.clone()].concat()); }
        }
        if !any && (kind == "left" || kind == "full") { out.push([x.clone(), vec![None, None]].concat()); }
    }
    if kind == "right" || kind == "full" {
        for (j, y) in r.iter().enumerate() { if !r_matched[j] { out.push([vec![None, None], y.clone()].concat()); } }
    }
    sorted(strs(&out))
}

pub fn join(depth: usize) -> Value {
    let mut tried = 0u64;
    let keys = [None, Some(0i64), Some(1)];
    let maxlen = 1 + depth.min(2);
    let mut keyseqs: Vec<Vec<V>> = vec![vec![]];
    let mut frontier: Vec<Vec<V>> = vec![vec![]];
    for _ in 0..maxlen {
        let mut next = vec![];
        for s in &frontier { for k in keys { let mut x = s.clone(); x.push(k); next.push(x); } }
        keyseqs.extend(next.iter().cloned());
        frontier = next;
    }
    let eq = |x: &Row, y: &Row| match (x[0], y[0]) { (Some(a), Some(c)) => Some(a == c), _ => None };
    let lt = |x: &Row, y: &Row| match (x[0], y[0]) { (Some(a), Some(c)) => Some(a < c), _ => None };
    for e in [Engine::Mem, Engine::Disk { block: 24, rowset: 1 }] {
        for (li, lk) in keyseqs.iter().enumerate() {
            for (ri, rk) in keyseqs.iter().enumerate() {
                if e != Engine::Mem && (li * 31 + ri) % 11 != 0 && depth < 2 { continue; }
                let l: Vec<Row> = lk.iter().enumerate().map(|(i, k)| vec![*k, Some(10 + i as i64)]).collect();
                let r: Vec<Row> = rk.iter().enumerate().map(|(i, k)| vec![*k, Some(20 + i as i64)]).collect();
                let mut sqls = vec!["create table l(a int, b int)".to_string(), "create table r(c int, d int)".to_string()];
                for x in &l { sqls.push(insert("l", &[x.clone()])); }
                for y in &r { sqls.push(insert("r", &[y.clone()])); }
                let q0 = sqls.len();
                let mut wants: Vec<Vec<Vec<String>>> = vec![];
                for kind in ["inner", "left", "right", "full"] {
                    sqls.push(format!("select a, b, c, d from l {kind} join r on a = c"));
                    wants.push(join_oracle(&l, &r, kind, &eq));
                }
                for kind in ["inner", "left", "right", "full"] {
                    sqls.push(format!("select a, b, c, d from l {kind} join r on a < c"));
                    wants.push(join_oracle(&l, &r, kind, &lt));
                }
                // ON conditions with a conjunct over one input only (must not become a filter below an outer join)
                let eq_b = |x: &Row, y: &Row| match eq(x, y) { Some(true) => Some(x[1].unwrap() > 10), o => o };
                let eq_d = |x: &Row, y: &Row| match eq(x, y) { Some(true) => Some(y[1].unwrap() > 20), o => o };
                for kind in ["inner", "left", "right", "full"] {
                    sqls.push(format!("select a, b, c, d from l {kind} join r on a = c and b > 10"));
                    wants.push(join_oracle(&l, &r, kind, &eq_b));
                    sqls.push(format!("select a, b, c, d from l {kind} join r on a = c and d > 20"));
                    wants.push(join_oracle(&l, &r, kind, &eq_d));
                }
                // IN / EXISTS / NOT EXISTS / NOT IN (three-valued)
                let semi = |f: &dyn Fn(&Row) -> Option<bool>| sorted(strs(&l.iter().filter(|x| f(x) == Some(true)).cloned().collect::<Vec<_>>()));
                let in_r = |x: &Row| -> Option<bool> {
                    if r.iter().any(|y| eq(x, y) == Some(true)) { Some(true) } else if r.iter().any(|y| eq(x, y).is_none()) { None } else { Some(false) }
                };
                sqls.push("select a, b from l where a in (select c from r)".into());
                wants.push(semi(&|x| in_r(x)));
                sqls.push("select a, b from l where a not in (select c from r)".into());
                wants.push(semi(&|x| in_r(x).map(|b| !b)));
                sqls.push("select a, b from l where exists (select * from r where c = a)".into());
                wants.push(semi(&|x| Some(r.iter().any(|y| eq(x, y) == Some(true)))));
                sqls.push("select a, b from l where not exists (select * from r where c = a)".into());
                wants.push(semi(&|x| Some(!r.iter().any(|y| eq(x, y) == Some(true)))));
                sqls.push("select a, b from l where not exists (select * from r where c > a)".into());
                wants.push(semi(&|x| Some(!r.iter().any(|y| lt(x, y) == Some(true)))));
                sqls.push("select a, b from l where exists (select * from r where c > a)".into());
                wants.push(semi(&|x| Some(r.iter().any(|y| lt(x, y) == Some(true)))));
                // a conjunct over the outer row only inside the correlated predicate (it must not become a filter below an anti join)
                sqls.push("select a, b from l where exists (select * from r where c = a and b > 10)".into());
                wants.push(semi(&|x| Some(r.iter().any(|y| eq(x, y) == Some(true)) && x[1].unwrap() > 10)));
                sqls.push("select a, b from l where not exists (select * from r where c = a and b > 10)".into());
                wants.push(semi(&|x| Some(!(r.iter().any(|y| eq(x, y) == Some(true)) && x[1].unwrap() > 10))));
                sqls.push("select a, b from l where not exists (select * from r where c > a and b > 10)".into());
                wants.push(semi(&|x| Some(!(r.iter().any(|y| lt(x, y) == Some(true)) && x[1].unwrap() > 10))));
                // inputs that need no column at all (count(*) over a join, uncorrelated EXISTS): chunks without columns still have rows (H38)
                let one = |n: usize| vec![vec![n.to_string()]];
                sqls.push("select count(*) from l, r".into());
                wants.push(one(l.len() * r.len()));
                for kind in ["inner", "left", "right", "full"] {
                    sqls.push(format!("select count(*) from l {kind} join r on a < c"));
                    wants.push(one(join_oracle(&l, &r, kind, &lt).len()));
                }
                let some_pos = r.iter().any(|y| matches!(y[0], Some(c) if c > 0));
                sqls.push("select count(*) from l where exists (select * from r where c > 0)".into());
                wants.push(one(if some_pos { l.len() } else { 0 }));
                sqls.push("select count(*) from l where not exists (select * from r where c > 0)".into());
                wants.push(one(if some_pos { 0 } else { l.len() }));
                tried += wants.len() as u64;
                let outs = match run(e, &sqls, &[]) { Ok(o) => o, Err(err) => return found_raw(tried, e, &sqls, &[], sqls.len() - 1, "the session to run".into(), err) };
                for (i, o) in outs.iter().enumerate().take(q0) { if let Err(err) = o { if let Some(v) = found(tried, e, &sqls, &[], i, "statement to succeed".into(), err.clone()) { return v; } } }
                for (j, want) in wants.iter().enumerate() {
                    match &outs[q0 + j] {
                        Ok(got) if sorted(got.clone()) == *want => {}
                        Ok(got) => { if let Some(v) = found(tried, e, &sqls, &[], q0 + j, format!("{want:?}"), format!("{:?}", sorted(got.clone()))) { return v; } },
                        Err(err) => { if let Some(v) = found(tried, e, &sqls, &[], q0 + j, format!("{want:?}"), format!("error: {err}")) { return v; } },
                    }
                }
            }
        }
    }
    // join keys of different numeric types: INT = BIGINT, INT = DOUBLE (H41)
    for e in [Engine::Mem, Engine::Disk { block: 64, rowset: 1 }] {
        let l: Vec<Row> = vec![vec![Some(1), Some(10)], vec![Some(2), Some(11)], vec![None, Some(12)], vec![Some(2), Some(13)]];
        let r: Vec<Row> = vec![vec![Some(1), Some(20)], vec![Some(3), Some(21)], vec![None, Some(22)], vec![Some(2), Some(23)]];
        let eq = |x: &Row, y: &Row| match (x[0], y[0]) { (Some(a), Some(c)) => Some(a == c), _ => None };
        for rty in ["bigint", "double"] {
            let mut sqls = vec!["create table l(a int, b int)".to_string(), format!("create table r(c {rty}, d int)"), insert("l", &l), insert("r", &r)];
            let q0 = sqls.len();
            let mut wants: Vec<Vec<Vec<String>>> = vec![];
            for kind in ["inner", "left", "right", "full"] {
                sqls.push(format!("select a, b, d from l {kind} join r on a = c"));
                wants.push(sorted(join_oracle(&l, &r, kind, &eq).into_iter().map(|row| vec![row[0].clone(), row[1].clone(), row[3].clone()]).collect()));
            }
            let has = |x: &Row| r.iter().any(|y| eq(x, y) == Some(true));
            sqls.push("select a, b from l where exists (select * from r where c = a)".into());
            wants.push(sorted(strs(&l.iter().filter(|x| has(x)).cloned().collect::<Vec<_>>())));
            sqls.push("select a, b from l where not exists (select * from r where c = a)".into());
            wants.push(sorted(strs(&l.iter().filter(|x| !has(x)).cloned().collect::<Vec<_>>())));
            tried += wants.len() as u64;
            let outs = match run(e, &sqls, &[]) { Ok(o) => o, Err(err) => return found_raw(tried, e, &sqls, &[], sqls.len() - 1, "the session to run".into(), err) };
            for (j, want) in wants.iter().enumerate() {
                match &outs[q0 + j] {
                    Ok(got) if sorted(got.clone()) == *want => {}
                    Ok(got) => { if let Some(v) = found(tried, e, &sqls, &[], q0 + j, format!("{want:?}"), format!("{:?}", sorted(got.clone()))) { return v; } },
                    Err(err) => { if let Some(v) = found(tried, e, &sqls, &[], q0 + j, format!("{want:?}"), format!("error: {err}")) { return v; } },
                }
            }
        }
    }
    // composite join keys: (a, b) = (c, d) with NULLs in either part (a partly NULL key matches nothing)
    {
        let vals = [None, Some(1i64), Some(2)];
        let pairs: Vec<(V, V)> = vals.iter().flat_map(|x| vals.iter().map(move |y| (*x, *y))).collect();
        let e = Engine::Mem;
        for (pi, p1) in pairs.iter().enumerate() {
            for (qi, q1) in pairs.iter().enumerate() {
                if depth < 2 && (pi * 9 + qi) % 2 != 0 { continue; }
                // two rows per side: the enumerated pair and a fixed partly-NULL pair
                let l: Vec<Row> = vec![vec![p1.0, p1.1, Some(10)], vec![Some(1), None, Some(11)]];
                let r: Vec<Row> = vec![vec![q1.0, q1.1, Some(20)], vec![Some(1), None, Some(21)]];
                let mut sqls = vec!["create table l(a int, b int, i int)".to_string(), "create table r(c int, d int, j int)".to_string()];
                for x in &l { sqls.push(insert("l", &[x.clone()])); }
                for y in &r { sqls.push(insert("r", &[y.clone()])); }
                let q0 = sqls.len();
                let eq2 = |x: &Row, y: &Row| match (x[0], y[0], x[1], y[1]) { (Some(a), Some(c), Some(b), Some(d)) => Some(a == c && b == d), (Some(a), Some(c), _, _) if a != c => Some(false), (_, _, Some(b), Some(d)) if b != d => Some(false), _ => None };
                let oracle = |kind: &str| -> Vec<Vec<String>> {
                    let mut out: Vec<Row> = vec![];
                    let mut rm = vec![false; r.len()];
                    for x in &l { let mut any = false; for (j, y) in r.iter().enumerate() { if eq2(x, y) == Some(true) { any = true; rm[j] = true; out.push([x.clone(), y.clone()].concat()); } }
                        if !any && (kind == "left" || kind == "full") { out.push([x.clone(), vec![None, None, None]].concat()); } }
                    if kind == "right" || kind == "full" { for (j, y) in r.iter().enumerate() { if !rm[j] { out.push([vec![None, None, None], y.clone()].concat()); } } }
                    sorted(strs(&out))
                };
                let kinds = ["inner", "left", "right", "full"];
                for kind in kinds { sqls.push(format!("select a, b, i, c, d, j from l {kind} join r on a = c and b = d")); }
                sqls.push("select a, b, i from l where exists (select * from r where c = a and d = b)".into());
                tried += 5;
                let outs = match run(e, &sqls, &[]) { Ok(o) => o, Err(err) => return found_raw(tried, e, &sqls, &[], sqls.len() - 1, "the session to run".into(), err) };
                for (j, kind) in kinds.iter().enumerate() {
                    let want = oracle(kind);
                    match &outs[q0 + j] {
                        Ok(got) if sorted(got.clone()) == want => {}
                        Ok(got) => { if let Some(v) = found(tried, e, &sqls, &[], q0 + j, format!("{want:?}"), format!("{:?}", sorted(got.clone()))) { return v; } },
                        Err(err) => { if let Some(v) = found(tried, e, &sqls, &[], q0 + j, format!("{want:?}"), format!("error: {err}")) { return v; } },
                    }
                }
                let want_semi = sorted(strs(&l.iter().filter(|x| r.iter().any(|y| eq2(x, y) == Some(true))).cloned().collect::<Vec<_>>()));
                match &outs[q0 + 4] {
                    Ok(got) if sorted(got.clone()) == want_semi => {}
                    other => { if let Some(v) = found(tried, e, &sqls, &[], q0 + 4, format!("{want_semi:?}"), format!("{other:?}")) { return v; } },
                }
            }
        }
    }
    // merge join: primary-key tables on the disk engine (scans ordered by key), rows spread over RowSets
    let e = Engine::Disk { block: 24, rowset: 1 };
    let universe = 4 + depth.min(1);
    for lm in 0u32..(1 << universe) {
        for rm in 0u32..(1 << universe) {
            if (lm * 37 + rm) % (if depth >= 2 { 1 } else { 5 }) != 0 { continue; }
            let l: Vec<Row> = (0..universe).filter(|i| lm & (1 << i) != 0).map(|i| vec![Some(i as i64), Some(10 + i as i64)]).collect();
            let r: Vec<Row> = (0..universe).filter(|i| rm & (1 << i) != 0).map(|i| vec![Some(i as i64), Some(20 + i as i64)]).collect();
            let mut sqls = vec!["create table l(a int primary key, b int)".to_string(), "create table r(c int primary key, d int)".to_string()];
            // two RowSets per table with interleaved keys, inserted in descending order
            for (t, rows) in [("l", &l), ("r", &r)] {
                for parity in 0..2 { let part: Vec<Row> = rows.iter().rev().enumerate().filter(|(i, _)| i % 2 == parity).map(|(_, x)| x.clone()).collect(); if !part.is_empty() { sqls.push(insert(t, &part)); } }
            }
            let q0 = sqls.len();
            let eq = |x: &Row, y: &Row| match (x[0], y[0]) { (Some(a), Some(c)) => Some(a == c), _ => None };
            let mut wants = vec![];
            for kind in ["inner", "left", "right", "full"] {
                sqls.push(format!("select a, b, c, d from l {kind} join r on a = c"));
                wants.push(join_oracle(&l, &r, kind, &eq));
            }
            // semi / anti joins over two key-ordered inputs (there is no merge join for them: H39)
            let has = |x: &Row| r.iter().any(|y| eq(x, y) == Some(true));
            for (q, keep) in [("a in (select c from r)", true), ("a not in (select c from r)", false), ("exists (select * from r where c = a)", true), ("not exists (select * from r where c = a)", false)] {
                sqls.push(format!("select a, b from l where {q}"));
                wants.push(sorted(strs(&l.iter().filter(|x| has(x) == keep).cloned().collect::<Vec<_>>())));
            }
            // ORDER BY on a key of the other side of an outer merge join (NULL-padded rows in between must not survive as such)
            let o0 = sqls.len();
            let ordered: Vec<(&str, usize)> = vec![("left", 2), ("full", 2), ("right", 0), ("full", 0), ("inner", 2)];
            for (kind, col) in &ordered { sqls.push(format!("select a, b, c, d from l {kind} join r on a = c order by {}", if *col == 2 { "c" } else { "a" })); }
            tried += 8 + ordered.len() as u64;
            let outs = match run(e, &sqls, &[]) { Ok(o) => o, Err(err) => return found_raw(tried, e, &sqls, &[], sqls.len() - 1, "the session to run".into(), err) };
            for (i, o) in outs.iter().enumerate().take(q0) { if let Err(err) = o { if let Some(v) = found(tried, e, &sqls, &[], i, "statement to succeed".into(), err.clone()) { return v; } } }
            for (j, (kind, col)) in ordered.iter().enumerate() {
                match &outs[o0 + j] {
                    Ok(got) => {
                        if sorted(got.clone()) != join_oracle(&l, &r, kind, &eq) { if let Some(v) = found(tried, e, &sqls, &[], o0 + j, format!("{:?}", join_oracle(&l, &r, kind, &eq)), format!("{:?}", sorted(got.clone()))) { return v; } }
                        let keys: Vec<Option<i64>> = got.iter().map(|row| row[*col].parse::<i64>().ok()).collect();
                        let nn: Vec<i64> = keys.iter().flatten().cloned().collect();
                        let nulls_contiguous = { let first = keys.iter().position(|k| k.is_none()); let last = keys.iter().rposition(|k| k.is_none()); match (first, last) { (Some(f), Some(la)) => (f == 0 || la == keys.len() - 1) && keys[f..=la].iter().all(|k| k.is_none()), _ => true } };
                        if nn.windows(2).any(|w| w[0] > w[1]) || !nulls_contiguous {
                            if let Some(v) = found(tried, e, &sqls, &[], o0 + j, "rows ordered by the key (NULLs together at one end)".into(), format!("{got:?}")) { return v; }
                        }
                    }
                    Err(err) => { if let Some(v) = found(tried, e, &sqls, &[], o0 + j, "an ordered result".into(), format!("error: {err}")) { return v; } }
                }
            }
            for (j, want) in wants.iter().enumerate() {
                match &outs[q0 + j] {
                    Ok(got) if sorted(got.clone()) == *want => {}
                    Ok(got) => { if let Some(v) = found(tried, e, &sqls, &[], q0 + j, format!("{want:?}"), format!("{:?}", sorted(got.clone()))) { return v; } },
                    Err(err) => { if let Some(v) = found(tried, e, &sqls, &[], q0 + j, format!("{want:?}"), format!("error: {err}")) { return v; } },
                }
            }
        }
    }
    // joins on TWO and on THREE equalities (the optimizer turns them into hash joins with key LISTS: the i-th left key must meet
    // the i-th right key): key columns whose values are permutations of each other, so that a key list in the wrong order joins
    // the wrong rows; NULL in any key column matches nothing
    for e in [Engine::Mem, Engine::Disk { block: 24, rowset: 1 }] {
        let l3: Vec<Row> = vec![vec![Some(1), Some(2), Some(3), Some(10)], vec![Some(1), Some(3), Some(2), Some(11)], vec![Some(2), Some(2), Some(2), Some(12)],
                                vec![Some(3), None, Some(1), Some(13)], vec![Some(4), Some(5), Some(6), Some(14)]];
        let r3: Vec<Row> = vec![vec![Some(1), Some(2), Some(3), Some(20)], vec![Some(1), Some(2), Some(2), Some(21)], vec![Some(2), Some(2), Some(2), Some(22)],
                                vec![Some(3), None, Some(1), Some(23)], vec![Some(6), Some(5), Some(4), Some(24)], vec![Some(1), Some(3), Some(2), Some(25)]];
        let mut sqls = vec!["create table l3(a int, b int, c int, t int)".to_string(), "create table r3(x int, y int, z int, u int)".to_string()];
        sqls.push(insert("l3", &l3)); sqls.push(insert("r3", &r3));
        let q0 = sqls.len();
        let eqv = |p: V, q: V| match (p, q) { (Some(a), Some(c)) => Some(a == c), _ => None };
        let on3 = |x: &Row, y: &Row| and3(and3(eqv(x[0], y[0]), eqv(x[1], y[1])), eqv(x[2], y[2]));
        let on2 = |x: &Row, y: &Row| and3(eqv(x[1], y[1]), eqv(x[2], y[2]));
        let on3x = |x: &Row, y: &Row| and3(and3(eqv(x[0], y[2]), eqv(x[1], y[1])), eqv(x[2], y[0]));
        let oracle = |kind: &str, on: &dyn Fn(&Row, &Row) -> Option<bool>| -> Vec<Vec<String>> {
            let mut out: Vec<Row> = vec![];
            let mut rm = vec![false; r3.len()];
            for x in &l3 {
                let mut any = false;
                for (j, y) in r3.iter().enumerate() { if on(x, y) == Some(true) { any = true; rm[j] = true; out.push(vec![x[3], y[3]]); } }
                if !any && (kind == "left" || kind == "full") { out.push(vec![x[3], None]); }
            }
            if kind == "right" || kind == "full" { for (j, y) in r3.iter().enumerate() { if !rm[j] { out.push(vec![None, y[3]]); } } }
            sorted(strs(&out))
        };
        let mut wants: Vec<Vec<Vec<String>>> = vec![];
        for kind in ["inner", "left", "right", "full"] {
            sqls.push(format!("select t, u from l3 {kind} join r3 on a = x and b = y and c = z")); wants.push(oracle(kind, &on3));
            sqls.push(format!("select t, u from l3 {kind} join r3 on b = y and c = z")); wants.push(oracle(kind, &on2));
            sqls.push(format!("select t, u from l3 {kind} join r3 on a = z and b = y and c = x")); wants.push(oracle(kind, &on3x));
        }
        tried += wants.len() as u64;
        let outs = match run(e, &sqls, &[]) { Ok(o) => o, Err(err) => return found_raw(tried, e, &sqls, &[], sqls.len() - 1, "the session (multi-key joins) to run".into(), err) };
        for (j, want) in wants.iter().enumerate() {
            match &outs[q0 + j] {
                Ok(got) if sorted(got.clone()) == *want => {}
                Ok(got) => { if let Some(v) = found(tried, e, &sqls, &[], q0 + j, format!("{want:?}"), format!("{:?}", sorted(got.clone()))) { return v; } },
                Err(err) => { if let Some(v) = found(tried, e, &sqls, &[], q0 + j, format!("{want:?}"), format!("error: {err}")) { return v; } },
            }
        }
    }
    done(tried)
}

// ------------------------------------------------------------------------------------------------ C07 / C03: histories
#[derive(Clone, Copy, Debug)]
enum Op { Ins(usize), Del(usize), Reopen }

pub fn history(depth: usize) -> Value {
    let mut tried = 0u64;
    // equal primary-key values (they are not rejected) within ONE insert statement and across statements: every row is kept,
    // a DELETE by key removes (and counts) all of them, before and after a reopen
    for e in engines().into_iter().take(3) {
        let sqls: Vec<String> = vec![
            "create table dup(k int primary key, v int)".into(),
            "insert into dup values (7,70),(8,80),(7,71),(9,90),(7,72)".into(), "insert into dup values (8,81),(6,60)".into(),
            "select k, v from dup".into(), "select k, v from dup".into(),
            "delete from dup where k = 7".into(), "select k, v from dup".into(), "select k, v from dup".into(),
        ];
        let reopen = if e == Engine::Mem { vec![] } else { vec![4usize, 7] };
        tried += 5;
        let outs = match run(e, &sqls, &reopen) { Ok(o) => o, Err(err) => return found_raw(tried, e, &sqls, &reopen, sqls.len() - 1, "the session to run".into(), err) };
        let all: Vec<(i64, i64)> = vec![(7, 70), (8, 80), (7, 71), (9, 90), (7, 72), (8, 81), (6, 60)];
        let rows = |keep: &dyn Fn(i64) -> bool| -> Vec<Vec<String>> { sorted(all.iter().filter(|(k, _)| keep(*k)).map(|(k, v)| vec![k.to_string(), v.to_string()]).collect()) };
        for (idx, want) in [(3usize, rows(&|_| true)), (4, rows(&|_| true)), (5, vec![vec!["3".to_string()]]), (6, rows(&|k| k != 7)), (7, rows(&|k| k != 7))] {
            match &outs[idx] {
                Ok(got) if sorted(got.clone()) == want => {}
                other => { if let Some(v) = found(tried, e, &sqls, &reopen, idx, format!("{want:?}"), format!("{other:?}")) { return v; } }
            }
        }
    }
    let batches: Vec<Vec<(i64, i64)>> = vec![
        (0..5).map(|i| (2 * i, i % 3)).collect(), (0..5).map(|i| (2 * i + 1, i % 2)).collect(), (10..16).map(|i| (i, 2)).collect()];
    let dels: Vec<(&str, Box<dyn Fn(i64, i64) -> bool>)> = vec![
        ("k < 3", Box::new(|k, _| k < 3)), ("v = 1", Box::new(|_, v| v == 1)), ("k >= 4 and k <= 11", Box::new(|k, _| k >= 4 && k <= 11)), ("k >= 0", Box::new(|k, _| k >= 0)),
        // every row of the third batch (a RowSet that is deleted entirely)
        ("v = 2", Box::new(|_, v| v == 2))];
    let mut alphabet: Vec<Op> = vec![];
    for i in 0..batches.len() { alphabet.push(Op::Ins(i)); }
    for i in 0..dels.len() { alphabet.push(Op::Del(i)); }
    alphabet.push(Op::Reopen);
    let maxlen = 3 + depth.min(1);
    let mut seqs: Vec<Vec<Op>> = vec![];
    let mut frontier: Vec<Vec<Op>> = vec![vec![]];
    for _ in 0..maxlen {
        let mut next = vec![];
        for s in &frontier { for o in &alphabet {
            if let (Op::Ins(i), true) = (o, true) { if s.iter().any(|p| matches!(p, Op::Ins(j) if j == i)) { continue; } } // a batch is inserted once (primary key)
            let mut x = s.clone(); x.push(*o); next.push(x);
        } }
        seqs.extend(next.iter().cloned());
        frontier = next;
    }
    // only maximal sequences need to run (every prefix is checked on the way)
    let seqs: Vec<Vec<Op>> = seqs.into_iter().filter(|s| s.len() == maxlen && matches!(s[0], Op::Ins(_))).collect();
    let stride = if depth >= 3 { 1 } else if depth == 2 { 5 } else { 41 };
    for (layout, e) in [Engine::Disk { block: 24, rowset: 1 }, Engine::Disk { block: 16 << 10, rowset: 1 }].into_iter().enumerate() {
        for (cols, tname) in [("k int primary key, v int", "h"), ("v int, k int", "n")] {
            let key_first = tname == "h";
            for (si, s) in seqs.iter().enumerate() {
                if (si + layout * 3) % stride != 0 { continue; }
                let mut sqls = vec![format!("create table {tname}({cols})")];
                let mut reopen = vec![];
                let mut model: Vec<(i64, i64)> = vec![];
                let mut plans: Vec<usize> = vec![]; // statement index of the EXPLAIN after a reopen (the one before it is at index - 1)
                let mut expect: Vec<(Option<usize>, Option<usize>, usize, Vec<Vec<String>>)> = vec![]; // (op statement, deleted count, select statement, rows after)
                for op in s {
                    let mut deleted = None;
                    let op_idx = match op {
                        Op::Ins(i) => {
                            let rows: Vec<Row> = batches[*i].iter().map(|(k, v)| if key_first { vec![Some(*k), Some(*v)] } else { vec![Some(*v), Some(*k)] }).collect();
                            sqls.push(insert(tname, &rows));
                            model.extend(batches[*i].iter().cloned());
                            Some(sqls.len() - 1)
                        }
                        Op::Del(i) => {
                            sqls.push(format!("delete from {tname} where {}", dels[*i].0));
                            let before = model.len();
                            model.retain(|(k, v)| !(dels[*i].1)(*k, *v));
                            deleted = Some(before - model.len());
                            Some(sqls.len() - 1)
                        }
                        Op::Reopen => {
                            // the table's definition must survive too: the plan of a key-range, key-ordered query is the same
                            // before and after the reopen (it depends on the PRIMARY KEY flag of the column)
                            sqls.push(format!("explain select k, v from {tname} where k >= 3 order by k"));
                            reopen.push(sqls.len());
                            sqls.push(format!("explain select k, v from {tname} where k >= 3 order by k"));
                            plans.push(sqls.len() - 1);
                            None
                        }
                    };
                    sqls.push(format!("select k, v from {tname}"));
                    expect.push((op_idx, deleted, sqls.len() - 1, sorted(model.iter().map(|(k, v)| vec![k.to_string(), v.to_string()]).collect())));
                }
                sqls.push(format!("select k from {tname} order by k"));
                tried += sqls.len() as u64;
                let outs = match run(e, &sqls, &reopen) { Ok(o) => o, Err(err) => return found_raw(tried, e, &sqls, &reopen, sqls.len() - 1, "the session (with its reopen steps) to run".into(), err) };
                for (i, o) in outs.iter().enumerate() { if let Err(err) = o { if let Some(v) = found(tried, e, &sqls, &reopen, i, "statement to succeed".into(), err.clone()) { return v; } } }
                for pi in &plans {
                    let (before, after) = (outs[*pi - 1].clone().unwrap(), outs[*pi].clone().unwrap());
                    if before != after { if let Some(v) = found(tried, e, &sqls, &reopen, *pi, format!("the same plan as before the reopen: {before:?}"), format!("{after:?}")) { return v; } }
                }
                for (op_idx, deleted, sidx, rows) in &expect {
                    if let (Some(d), Some(oi)) = (deleted, op_idx) {
                        let got = outs[*oi].clone().unwrap();
                        if got != vec![vec![d.to_string()]] { if let Some(v) = found(tried, e, &sqls, &reopen, *oi, format!("DELETE to report {d} rows"), format!("{got:?}")) { return v; } }
                    }
                    let got = sorted(outs[*sidx].clone().unwrap());
                    if got != *rows { if let Some(v) = found(tried, e, &sqls, &reopen, *sidx, format!("{} rows {rows:?}", rows.len()), format!("{} rows {got:?}", got.len())) { return v; } }
                }
                let last = outs[sqls.len() - 1].clone().unwrap();
                let mut ks: Vec<i64> = model.iter().map(|(k, _)| *k).collect(); ks.sort();
                let want: Vec<Vec<String>> = ks.iter().map(|k| vec![k.to_string()]).collect();
                if last != want { if let Some(v) = found(tried, e, &sqls, &reopen, sqls.len() - 1, format!("{want:?}"), format!("{last:?}")) { return v; } }
            }
        }
    }
    done(tried)
}

// ------------------------------------------------------------------------------------------------ C02: three-valued logic in WHERE / SELECT
type B3 = Option<bool>;
fn and3(x: B3, y: B3) -> B3 { match (x, y) { (Some(false), _) | (_, Some(false)) => Some(false), (Some(true), Some(true)) => Some(true), _ => None } }
fn or3(x: B3, y: B3) -> B3 { match (x, y) { (Some(true), _) | (_, Some(true)) => Some(true), (Some(false), Some(false)) => Some(false), _ => None } }
fn not3(x: B3) -> B3 { x.map(|b| !b) }

/// SQL LIKE without an escape character: `%` = any string, `_` = any one character, everything else stands for itself
fn like_oracle(s: &[char], p: &[char]) -> bool {
    match p.split_first() {
        None => s.is_empty(),
        Some(('%', rest)) => (0..=s.len()).any(|k| like_oracle(&s[k..], rest)),
        Some(('_', rest)) => !s.is_empty() && like_oracle(&s[1..], rest),
        Some((c, rest)) => s.first() == Some(c) && like_oracle(&s[1..], rest),
    }
}

pub fn expr(depth: usize) -> Value {
    let mut tried = 0u64;
    // string predicates: LIKE / NOT LIKE over strings that contain characters with a meaning in regular expressions (H40)
    {
        let vals: Vec<Option<&str>> = vec![None, Some(""), Some("abc"), Some("a.c"), Some("a%c"), Some("ac"), Some("a+"), Some("aa"), Some("(a)"), Some("a|b"), Some("ABC"), Some("a\\c")];
        let pats = ["a.c", "a_c", "a%", "%c", "%", "_", "", "a+", "(a)", "a|b", "%.%", "a\\c", "a*", "[a]c", "a%c", "^abc$", "ab_"];
        for e in engines() {
            let mut sqls = vec!["create table s(id int, v varchar)".to_string()];
            sqls.push(format!("insert into s values {}", vals.iter().enumerate().map(|(i, v)| format!("({i}, {})", match v { None => "NULL".to_string(), Some(x) => format!("'{x}'") })).collect::<Vec<_>>().join(",")));
            let q0 = sqls.len();
            let mut wants: Vec<Vec<Vec<String>>> = vec![];
            for p in pats {
                let pc: Vec<char> = p.chars().collect();
                let m = |v: &Option<&str>| v.map(|x| like_oracle(&x.chars().collect::<Vec<_>>(), &pc));
                sqls.push(format!("select id from s where v like '{p}'"));
                wants.push(sorted(vals.iter().enumerate().filter(|(_, v)| m(v) == Some(true)).map(|(i, _)| vec![i.to_string()]).collect()));
                sqls.push(format!("select id from s where v not like '{p}'"));
                wants.push(sorted(vals.iter().enumerate().filter(|(_, v)| m(v) == Some(false)).map(|(i, _)| vec![i.to_string()]).collect()));
            }
            tried += wants.len() as u64;
            let outs = match run(e, &sqls, &[]) { Ok(o) => o, Err(err) => return found_raw(tried, e, &sqls, &[], sqls.len() - 1, "the session to run".into(), err) };
            for (j, want) in wants.iter().enumerate() {
                match &outs[q0 + j] {
                    Ok(got) if sorted(got.clone()) == *want => {}
                    Ok(got) => { if let Some(v) = found(tried, e, &sqls, &[], q0 + j, format!("{want:?}"), format!("{:?}", sorted(got.clone()))) { return v; } },
                    Err(err) => { if let Some(v) = found(tried, e, &sqls, &[], q0 + j, format!("{want:?}"), format!("error: {err}")) { return v; } },
                }
            }
        }
    }
    let dom = [None, Some(0i64), Some(1), Some(2)];
    let rows: Vec<Row> = dom.iter().flat_map(|a| dom.iter().map(move |b| vec![*a, *b])).collect();
    let cmp = |op: &str, x: V, y: V| -> B3 { match (x, y) { (Some(p), Some(q)) => Some(match op { "=" => p == q, "<>" => p != q, "<" => p < q, "<=" => p <= q, ">" => p > q, _ => p >= q }), _ => None } };
    let ar = |op: &str, x: V, y: V| -> V { match (x, y) { (Some(p), Some(q)) => Some(match op { "+" => p + q, "-" => p - q, _ => p * q }), _ => None } };
    // boolean atoms: (sql text, evaluator over (a, b), (lhs, op, rhs) for comparison atoms)
    struct Atom { sql: String, f: Box<dyn Fn(V, V) -> B3>, shape: Option<(String, &'static str, String)> }
    let mut atoms: Vec<Atom> = vec![];
    for op in ["=", "<>", "<", "<=", ">", ">="] {
        let mut add = |l: &str, r: &str, f: Box<dyn Fn(V, V) -> B3>| atoms.push(Atom { sql: format!("{l} {op} {r}"), f, shape: Some((l.to_string(), op, r.to_string())) });
        add("a", "b", Box::new(move |a, b| cmp(op, a, b)));
        add("a", "a", Box::new(move |a, _| cmp(op, a, a)));
        add("a", "1", Box::new(move |a, _| cmp(op, a, Some(1))));
        add("1", "b", Box::new(move |_, b| cmp(op, Some(1), b)));
        add("a + b", "2", Box::new(move |a, b| cmp(op, ar("+", a, b), Some(2))));
        add("a - a", "0", Box::new(move |a, _| cmp(op, ar("-", a, a), Some(0))));
        add("a * 0", "0", Box::new(move |a, _| cmp(op, ar("*", a, Some(0)), Some(0))));
        add("a + 1", "b", Box::new(move |a, b| cmp(op, ar("+", a, Some(1)), b)));
    }
    let mut plain = |sql: &str, f: Box<dyn Fn(V, V) -> B3>| atoms.push(Atom { sql: sql.into(), f, shape: None });
    plain("a is null", Box::new(|a, _| Some(a.is_none())));
    plain("b is not null", Box::new(|_, b| Some(b.is_some())));
    plain("a > 0 and a < 2", Box::new(move |a, _| and3(cmp(">", a, Some(0)), cmp("<", a, Some(2)))));
    plain("a > 1 and a < 1 /* H29 */", Box::new(move |a, _| and3(cmp(">", a, Some(1)), cmp("<", a, Some(1)))));
    plain("a in (0, 2)", Box::new(move |a, _| or3(cmp("=", a, Some(0)), cmp("=", a, Some(2)))));
    plain("a not in (0, 2)", Box::new(move |a, _| not3(or3(cmp("=", a, Some(0)), cmp("=", a, Some(2))))));
    let n = atoms.len();
    // Two rewrite rules of the optimizer are sound for filters only (they turn a NULL into false or a false into NULL) and are
    // pinned by unit tests of the repository (known findings H29, H30). Formulas that contain their left-hand side, directly
    // or after De Morgan, are tagged with a SQL comment so that their failures are reported against those findings.
    //   H29 and-gt-lt-conflict: (x > A) and (x < B) => false   [A >= B]        H30 eq-trans: (x = y) and (y = z) => (x = y) and (x = z)
    let tag = |i: usize, j: usize, conj: bool| -> &'static str {
        let (Some((l1, o1, r1)), Some((l2, o2, r2))) = (&atoms[i].shape, &atoms[j].shape) else { return "" };
        // as a conjunction the atoms are used as they are; under `not (p or q)` they are negated
        let neg = |o: &'static str| match o { "=" => "<>", "<>" => "=", "<" => ">=", "<=" => ">", ">" => "<=", _ => "<" };
        let (o1, o2) = if conj { (*o1, *o2) } else { (neg(o1), neg(o2)) };
        let same_terms = (l1 == l2 && r1 == r2) || (l1 == r2 && r1 == l2);
        if same_terms && matches!((o1, o2), (">", "<") | ("<", ">") | (">", ">") | ("<", "<")) { return " /* H29 */"; }
        let shares = l1 == l2 || l1 == r2 || r1 == l2 || r1 == r2;
        if o1 == "=" && o2 == "=" && shares { return " /* H30 */"; }
        ""
    };
    // formulas: atom, not atom, and/or of two atoms, negated and/or
    let mut formulas: Vec<(String, Box<dyn Fn(V, V) -> B3 + '_>)> = vec![];
    for i in 0..n {
        let s = &atoms[i].sql;
        let at = &atoms;
        formulas.push((s.clone(), Box::new(move |a, b| (at[i].f)(a, b))));
        formulas.push((format!("not ({s})"), Box::new(move |a, b| not3((at[i].f)(a, b)))));
    }
    let stride = if depth >= 2 { 1 } else { 7 };
    let mut k = 0usize;
    for i in 0..n { for j in 0..n {
        k += 1;
        if i == j || k % stride != 0 { continue; }
        let at = &atoms;
        let (si, sj) = (&atoms[i].sql, &atoms[j].sql);
        let (tc, td) = (tag(i, j, true), tag(i, j, false));
        formulas.push((format!("({si}) and ({sj}){tc}"), Box::new(move |a, b| and3((at[i].f)(a, b), (at[j].f)(a, b)))));
        formulas.push((format!("({si}) or ({sj})"), Box::new(move |a, b| or3((at[i].f)(a, b), (at[j].f)(a, b)))));
        formulas.push((format!("not (({si}) and ({sj})){tc}"), Box::new(move |a, b| not3(and3((at[i].f)(a, b), (at[j].f)(a, b))))));
        formulas.push((format!("not (({si}) or ({sj})){td}"), Box::new(move |a, b| not3(or3((at[i].f)(a, b), (at[j].f)(a, b))))));
    } }
    // the same formulas over a table whose column a holds no NULL (declared NOT NULL): a kernel sees one operand without NULLs
    let all_rows = rows;
    for (e, tname, decl) in [(Engine::Mem, "e", "a int, b int"), (Engine::Disk { block: 64, rowset: 1 }, "e", "a int, b int"), (Engine::Mem, "en", "a int not null, b int")] {
        let rows: Vec<Row> = all_rows.iter().filter(|r| tname == "e" || r[0].is_some()).cloned().collect();
        let half = rows.len() / 2;
        let mut sqls = vec![format!("create table {tname}({decl})"), insert(tname, &rows[..half]), insert(tname, &rows[half..])];
        let q0 = sqls.len();
        for (f, _) in &formulas {
            sqls.push(format!("select a, b from {tname} where {f}"));
            sqls.push(format!("select a, b, {f} from {tname}"));
        }
        tried += (sqls.len() - q0) as u64;
        let outs = match run(e, &sqls, &[]) { Ok(o) => o, Err(err) => return found_raw(tried, e, &sqls, &[], sqls.len() - 1, "the session to run".into(), err) };
        for (fi, (_, f)) in formulas.iter().enumerate() {
            let want_where = sorted(strs(&rows.iter().filter(|r| f(r[0], r[1]) == Some(true)).cloned().collect::<Vec<_>>()));
            let want_sel: Vec<Vec<String>> = sorted(rows.iter().map(|r| vec![sv(r[0]), sv(r[1]), match f(r[0], r[1]) { None => "NULL".into(), Some(b) => b.to_string() }]).collect());
            for (off, want) in [(0usize, &want_where), (1, &want_sel)] {
                let idx = q0 + 2 * fi + off;
                // keep the replay script short: schema + data + the failing statement
                let script = || { let mut s = sqls[..q0].to_vec(); s.push(sqls[idx].clone()); s };
                match &outs[idx] {
                    Ok(got) if sorted(got.clone()) == *want => {}
                    Ok(got) => { let s = script(); if let Some(v) = found(tried, e, &s, &[], s.len() - 1, format!("{want:?}"), format!("{:?}", sorted(got.clone()))) { return v; } }
                    Err(err) => { let s = script(); if let Some(v) = found(tried, e, &s, &[], s.len() - 1, format!("{want:?}"), format!("error: {err}")) { return v; } }
                }
            }
        }
    }
    done(tried)
}

// ------------------------------------------------------------------------------------------------ C03: DDL + DML histories with reopen
#[derive(Clone, Copy, Debug, PartialEq)]
enum D { Create(usize), Drop(usize), Ins(usize), Del(usize), Reopen }

pub fn ddl(depth: usize) -> Value {
    let mut tried = 0u64;
    let ntab = 2usize;
    let len = 4 + depth.min(2);
    // enumerate valid histories (create only what does not exist, use only what exists), then sample
    let mut seqs: Vec<Vec<D>> = vec![];
    fn rec(cur: &mut Vec<D>, exists: &mut Vec<bool>, ins: &mut Vec<usize>, len: usize, ntab: usize, out: &mut Vec<Vec<D>>) {
        if cur.len() == len { out.push(cur.clone()); return; }
        for t in 0..ntab {
            if !exists[t] { cur.push(D::Create(t)); exists[t] = true; let save = ins[t]; ins[t] = 0; rec(cur, exists, ins, len, ntab, out); ins[t] = save; exists[t] = false; cur.pop(); }
            else {
                cur.push(D::Drop(t)); exists[t] = false; rec(cur, exists, ins, len, ntab, out); exists[t] = true; cur.pop();
                if ins[t] < 2 { cur.push(D::Ins(t)); ins[t] += 1; rec(cur, exists, ins, len, ntab, out); ins[t] -= 1; cur.pop(); }
                if ins[t] > 0 { cur.push(D::Del(t)); rec(cur, exists, ins, len, ntab, out); cur.pop(); }
            }
        }
        if !matches!(cur.last(), Some(D::Reopen) | None) { cur.push(D::Reopen); rec(cur, exists, ins, len, ntab, out); cur.pop(); }
    }
    rec(&mut vec![], &mut vec![false; ntab], &mut vec![0; ntab], len, ntab, &mut seqs);
    // histories without a reopen say nothing about durability
    let seqs: Vec<Vec<D>> = seqs.into_iter().filter(|s| s.contains(&D::Reopen)).collect();
    let stride = (seqs.len() / match depth { 0 | 1 => 16, 2 => 160, _ => usize::MAX }).max(1);
    let e = Engine::Disk { block: 64, rowset: 1 };
    // statements that may be refused, but must never leave a log that cannot be replayed
    for odd in ["create table bad(_rowid_ int)", "create table bad(a int, a int)", "create table d0(z int)", "drop table nosuch", "drop table d0, d0", "insert into d0 values (1)", "create table bad(a int primary key, b int primary key)"] {
        let sqls: Vec<String> = vec!["create table d0(k int primary key, v int)".into(), "insert into d0 values (1,1)".into(), odd.into(), "select k, v from d0".into()];
        tried += 4;
        match run(e, &sqls, &[3]) {
            Ok(outs) => match &outs[3] {
                Ok(rows) if *rows == vec![vec!["1".to_string(), "1".to_string()]] => {}
                other => { if let Some(v) = found(tried, e, &sqls, &[3], 3, "table d0 = [[1, 1]] after the reopen".into(), format!("{other:?}")) { return v; } }
            },
            Err(err) => return found_raw(tried, e, &sqls, &[3], 3, "the database to reopen after the (possibly refused) statement".into(), err),
        }
    }
    // a NULL for a NOT NULL column: the statement is refused and changes nothing, or its rows read back as they were written (H43)
    for bad in ["insert into nn values (8, 9), (null, 4)", "insert into nn(y) values (7)"] {
        let sqls: Vec<String> = vec!["create table nn(x int not null, y int)".into(), "insert into nn values (5, 6)".into(), bad.into(), "select x, y from nn".into(), "select x, y from nn".into()];
        tried += 2;
        let outs = match run(e, &sqls, &[4]) { Ok(o) => o, Err(err) => return found_raw(tried, e, &sqls, &[4], 4, "the session to run".into(), err) };
        let refused = outs[2].is_err();
        let mut want = vec![vec!["5".to_string(), "6".to_string()]];
        if !refused { if bad.contains("(8, 9)") { want.push(vec!["8".into(), "9".into()]); want.push(vec!["NULL".into(), "4".into()]); } else { want.push(vec!["NULL".into(), "7".into()]); } }
        let want = sorted(want);
        for i in [3usize, 4] {
            match &outs[i] {
                Ok(got) if sorted(got.clone()) == want => {}
                other => { if let Some(v) = found(tried, e, &sqls, &[4], i, format!("{} => {want:?}", if refused { "the INSERT was refused" } else { "the INSERT was acknowledged" }), format!("{other:?}")) { return v; } }
            }
        }
    }
    // a long catalog history (17 rounds of create / insert / drop between two tables that stay): the manifest rewritten by the
    // first recovery has more than 32 entries, the second recovery replays it
    {
        let mut sqls: Vec<String> = vec!["create table keep(k int primary key, v int)".into(), "insert into keep values (1,10),(2,20)".into()];
        for r in 0..17 { sqls.push("create table tmp(a int)".into()); sqls.push(format!("insert into tmp values ({r})")); sqls.push("drop table tmp".into()); }
        sqls.push("create table other(k int primary key, v int)".into());
        sqls.push("insert into other values (5,50)".into());
        sqls.push("delete from keep where k = 1".into());
        let q0 = sqls.len();
        for _ in 0..3 { sqls.push("select k, v from keep".into()); sqls.push("select k, v from other".into()); }
        let reopen = vec![q0 + 2, q0 + 4];
        tried += 6;
        let outs = match run(e, &sqls, &reopen) { Ok(o) => o, Err(err) => return found_raw(tried, e, &sqls, &reopen, sqls.len() - 1, "the session (17 create/insert/drop rounds, two reopen cycles) to run".into(), err) };
        for i in 0..6 {
            let want = if i % 2 == 0 { vec![vec!["2".to_string(), "20".to_string()]] } else { vec![vec!["5".to_string(), "50".to_string()]] };
            match &outs[q0 + i] {
                Ok(got) if *got == want => {}
                other => { if let Some(v) = found(tried, e, &sqls, &reopen, q0 + i, format!("{want:?}"), format!("{other:?}")) { return v; } }
            }
        }
    }
    // an INSERT that is refused in its SECOND chunk (NOT NULL violated by row 1500 of 1500: the first 1024-row chunk was already
    // appended, so the write transaction has taken a RowSet id and created that RowSet's directory) is not acknowledged; what it
    // leaves on disk must not get in the way later: after a reopen the next INSERT is accepted, and read back over another reopen
    {
        let bad: Vec<String> = (0..1499).map(|i| format!("({i})")).chain(std::iter::once("(NULL)".to_string())).collect();
        let sqls: Vec<String> = vec![
            "create table nn(v int not null)".into(),
            format!("insert into nn values {}", bad.join(",")),
            "select count(*) from nn".into(),
            "insert into nn values (7)".into(),
            "select v from nn".into(),
            "select v from nn".into(),
            "insert into nn values (8)".into(),
            "select count(*) from nn".into(),
        ];
        let reopen = vec![3usize, 5];
        let e = Engine::Disk { block: 4096, rowset: 1 << 24 };
        tried += 8;
        let short: Vec<String> = sqls.iter().map(|q| if q.len() > 200 { format!("{} ... ({} characters)", &q[..120], q.len()) } else { q.clone() }).collect();
        let outs = match run(e, &sqls, &reopen) { Ok(o) => o, Err(err) => return found_raw(tried, e, &short, &reopen, sqls.len() - 1, "the session (refused two-chunk INSERT, two reopen cycles) to run".into(), err) };
        if outs[1].is_err() {
            let want: [(usize, Vec<Vec<String>>); 4] = [(2, vec![vec!["0".into()]]), (4, vec![vec!["7".into()]]), (5, vec![vec!["7".into()]]), (7, vec![vec!["2".into()]])];
            for i in [3usize, 6] { if let Err(err) = &outs[i] { return found_raw(tried, e, &short, &reopen, i, "the INSERT to be accepted (the earlier refused INSERT changed nothing)".into(), err.clone()); } }
            for (i, w) in want.iter() {
                match &outs[*i] {
                    Ok(got) if got == w => {}
                    other => return found_raw(tried, e, &short, &reopen, *i, format!("{w:?}"), format!("{other:?}")),
                }
            }
        }
    }
    // one DELETE that removes thousands of rows of one RowSet (a delete-vector file of many KiB), one long VARCHAR value: both
    // have to survive two reopen cycles unchanged
    {
        let rows: Vec<String> = (0..3000).map(|k| format!("({k},{})", k % 5)).collect();
        let long_s = "y".repeat(70_000);
        let sqls: Vec<String> = vec![
            "create table big(k int primary key, v int)".into(), format!("insert into big values {}", rows.join(",")),
            "delete from big where k >= 4".into(),
            "create table lv(id int, s varchar)".into(), format!("insert into lv values (1, '{long_s}'), (2, 'ab'), (3, '')"),
            "select count(*), sum(k) from big".into(), format!("select id from lv where s = '{long_s}'"), "select id from lv where s = 'ab'".into(),
            "select count(*), sum(k) from big".into(), format!("select id from lv where s = '{long_s}'"), "select id from lv where s = 'ab'".into(),
            "select count(*), sum(k) from big".into(), format!("select id from lv where s = '{long_s}'"), "select id from lv where s = 'ab'".into(),
        ];
        let reopen = vec![8usize, 11];
        // one RowSet per table (nothing for the compactor to merge), so that the DELETE's delete vector is one large file
        let e = Engine::Disk { block: 4096, rowset: 1 << 24 };
        tried += 9;
        let short = |i: usize| -> Vec<String> { sqls.iter().map(|q| if q.len() > 200 { format!("{} ... ({} characters)", &q[..120], q.len()) } else { q.clone() }).enumerate().map(|(j, q)| if j == i { q } else { q }).collect() };
        let outs = match run(e, &sqls, &reopen) { Ok(o) => o, Err(err) => return found_raw(tried, e, &short(0), &reopen, sqls.len() - 1, "the session (bulk delete, long value, two reopen cycles) to run".into(), err) };
        for i in 0..5 { if let Err(err) = &outs[i] { return found_raw(tried, e, &short(i), &reopen, i, "statement to succeed".into(), err.clone()); } }
        for round in 0..3 {
            let want = [vec![vec!["4".to_string(), "6".to_string()]], vec![vec!["1".to_string()]], vec![vec!["2".to_string()]]];
            for (j, w) in want.iter().enumerate() {
                let idx = 5 + 3 * round + j;
                match &outs[idx] {
                    Ok(got) if got == w => {}
                    other => return found_raw(tried, e, &short(idx), &reopen, idx, format!("{w:?}"), format!("{other:?}")),
                }
            }
        }
    }
    // every column type the SQL layer can store: what the on-disk engine returns after two reopen cycles is what the in-memory
    // engine (no files involved) returns for the same statements
    {
        let sqls: Vec<String> = vec![
            "create table ty(id int primary key, b boolean, si smallint, bi bigint, d double, dc decimal(12,3), dt date, s varchar, c char(4))".into(),
            "insert into ty values (1, true, 7, 9000000000, 1.5, 12345.678, date '2024-02-29', 'héllo wörld', 'ab'), (2, false, -7, -9000000000, -0.25, -0.001, date '1969-12-31', '', 'abcd'), (3, null, null, null, null, null, null, null, null)".into(),
            "insert into ty values (4, true, 32767, 9223372036854775807, 123456789.125, 999999999.999, date '9999-12-31', '中文 текст', 'é'), (5, false, -32768, -9223372036854775807, 0.1, 0.000, date '0001-01-01', 'x', '')".into(),
            "select id, b, si, bi, d, dc, dt, s, c from ty".into(),
            "select id, b, si, bi, d, dc, dt, s, c from ty".into(),
            "select id, b, si, bi, d, dc, dt, s, c from ty".into(),
            "select count(b), count(si), count(bi), count(d), count(dc), count(dt), count(s), count(c) from ty".into(),
        ];
        let reopen = vec![4usize, 5];
        tried += 4;
        let want = match run(Engine::Mem, &sqls, &[]) { Ok(o) => o, Err(err) => return found_raw(tried, Engine::Mem, &sqls, &[], 0, "the in-memory session to run".into(), err) };
        if want[..3].iter().all(|o| o.is_ok()) {
            for e in [Engine::Disk { block: 64, rowset: 1 }, Engine::Disk { block: 4096, rowset: 1 << 24 }] {
                let outs = match run(e, &sqls, &reopen) { Ok(o) => o, Err(err) => return found_raw(tried, e, &sqls, &reopen, sqls.len() - 1, "the session (typed values, two reopen cycles) to run".into(), err) };
                for i in 0..sqls.len() {
                    let (a, b) = (outs[i].clone().map(sorted), want[i].clone().map(sorted));
                    if a != b { return found_raw(tried, e, &sqls, &reopen, i, format!("what the in-memory engine returns: {b:?}"), format!("{a:?}")); }
                }
            }
        }
    }
    // histories that are always run, whatever the sampling picks: a table dropped before a later one that has rows (table ids
    // are re-derived from the logged DDL), deletes carried over two recoveries, a table re-created under the same name
    let directed: Vec<Vec<D>> = vec![
        vec![D::Create(0), D::Create(1), D::Ins(1), D::Drop(0), D::Reopen, D::Ins(1), D::Reopen],
        vec![D::Create(0), D::Ins(0), D::Ins(0), D::Del(0), D::Reopen, D::Del(0), D::Reopen],
        vec![D::Create(0), D::Ins(0), D::Drop(0), D::Create(0), D::Ins(0), D::Reopen],
        vec![D::Create(1), D::Create(0), D::Ins(0), D::Del(0), D::Drop(1), D::Reopen, D::Create(1), D::Ins(1), D::Reopen],
    ];
    let nd = directed.len();
    for (si, s) in directed.iter().chain(seqs.iter()).enumerate() {
        if si >= nd && (si - nd) % stride != 0 { continue; }
        let mut sqls: Vec<String> = vec![];
        let mut reopen = vec![];
        let mut model: Vec<Option<Vec<(i64, i64)>>> = vec![None; ntab];
        let mut next_batch = vec![0i64; ntab];
        // (statement index, table, expected rows or None = table must not exist)
        let mut checks: Vec<(usize, usize, Option<Vec<Vec<String>>>)> = vec![];
        for op in s {
            match op {
                D::Create(t) => { sqls.push(format!("create table d{t}(k int primary key, v int)")); model[*t] = Some(vec![]); next_batch[*t] = 0; }
                D::Drop(t) => { sqls.push(format!("drop table d{t}")); model[*t] = None; }
                D::Ins(t) => {
                    let b = next_batch[*t]; next_batch[*t] += 1;
                    let rows: Vec<(i64, i64)> = (0..4).map(|i| (10 * b + i, i % 2)).collect();
                    sqls.push(insert(&format!("d{t}"), &rows.iter().map(|(k, v)| vec![Some(*k), Some(*v)]).collect::<Vec<_>>()));
                    model[*t].as_mut().unwrap().extend(rows);
                }
                D::Del(t) => { sqls.push(format!("delete from d{t} where v = 1")); model[*t].as_mut().unwrap().retain(|(_, v)| *v != 1); }
                D::Reopen => { reopen.push(sqls.len()); }
            }
            // a reopen step is TWO shutdown + reopen cycles: every bootstrap rewrites the manifest, and what the first cycle
            // wrote is what the second one recovers from
            for cycle in 0..(if *op == D::Reopen { 2 } else { 1 }) {
                if cycle == 1 { reopen.push(sqls.len()); }
                for t in 0..ntab {
                    sqls.push(format!("select k, v from d{t}"));
                    checks.push((sqls.len() - 1, t, model[t].as_ref().map(|rows| sorted(rows.iter().map(|(k, v)| vec![k.to_string(), v.to_string()]).collect()))));
                }
            }
        }
        tried += sqls.len() as u64;
        let outs = match run(e, &sqls, &reopen) { Ok(o) => o, Err(err) => return found_raw(tried, e, &sqls, &reopen, sqls.len() - 1, "the session (with its reopen steps) to run".into(), err) };
        for (i, o) in outs.iter().enumerate() {
            if sqls[i].starts_with("select") { continue; }
            if let Err(err) = o { if let Some(v) = found(tried, e, &sqls, &reopen, i, "statement to succeed".into(), err.clone()) { return v; } }
        }
        for (idx, t, want) in &checks {
            match (&outs[*idx], want) {
                (Ok(got), Some(w)) if sorted(got.clone()) == *w => {}
                (Err(_), None) => {}
                (got, want) => { if let Some(v) = found(tried, e, &sqls, &reopen, *idx, match want { Some(w) => format!("table d{t} = {w:?}"), None => format!("an error: table d{t} does not exist") }, format!("{got:?}")) { return v; } }
            }
        }
    }
    done(tried)
}
