//! C04 at system level: the on-disk state a crash leaves behind while the manifest record of a statement is being
//! appended - all data files of the statement are on disk (they are written and synced before the append), the tail of
//! manifest.json is cut at EVERY byte position of the record. Recovery must open, show every acknowledged statement, show the
//! interrupted one completely or not at all (completely if its record is whole), accept a new statement, and give the same
//! state after recovering again.
use risinglight::storage::verif_hooks as h;
use serde_json::{Value, json};

type Rows = Vec<Vec<String>>;
fn sorted(mut r: Rows) -> Rows { r.sort(); r }

pub fn crash(depth: usize) -> Value {
    let mut tried = 0u64;
    // a table created first and dropped again sits before every other table: table ids are re-derived from the logged DDL at
    // every recovery, so the drop has to survive the manifest rewrite of the first recovery for the second one to work
    let base: Vec<String> = vec![
        "create table z(a int)".into(),
        "insert into z values (1)".into(),
        "create table t(k int primary key, v int)".into(),
        "insert into t values (1,10),(2,20),(3,30),(4,40)".into(),
        "insert into t values (5,50),(6,60)".into(),
        "create table u(k int primary key, v int)".into(),
        "insert into u values (7,70)".into(),
        "drop table z".into(),
    ];
    let t0: Rows = (1..=6).map(|k| vec![k.to_string(), (k * 10).to_string()]).collect();
    let u0: Rows = vec![vec!["7".into(), "70".into()]];
    // (interrupted statement, t after it, u after it [None = dropped], w exists after it)
    let cases: Vec<(&str, Rows, Option<Rows>, bool)> = vec![
        ("insert into t values (8,80),(9,90)", { let mut r = t0.clone(); r.push(vec!["8".into(), "80".into()]); r.push(vec!["9".into(), "90".into()]); r }, Some(u0.clone()), false),
        ("delete from t where k >= 3 and k <= 5", t0.iter().filter(|r| !["3", "4", "5"].contains(&r[0].as_str())).cloned().collect(), Some(u0.clone()), false),
        ("drop table u", t0.clone(), None, false),
        ("create table w(a int)", t0.clone(), Some(u0.clone()), true),
        ("delete from t where v > 0", vec![], Some(u0.clone()), false),
        // a record with multi-byte UTF-8 text: a cut inside a character must still be a torn tail, not an unreadable log
        ("create table w(a int, \u{e9}\u{e8}\u{4e2d}\u{6587} int)", t0.clone(), Some(u0.clone()), true),
    ];
    // a statement that spans several RowSets (2500 rows; the sessions run with target_rowset_size = 1, so every 1024-row chunk
    // is flushed as a RowSet of its own): all of them must become visible through ONE manifest record
    let big: String = format!("insert into t values {}", (1000..3500).map(|k| format!("({k},{})", k % 7)).collect::<Vec<_>>().join(","));
    let big_rows: Rows = { let mut r = t0.clone(); r.extend((1000..3500).map(|k: i64| vec![k.to_string(), (k % 7).to_string()])); r };
    // a compaction pass as the interrupted operation (t's two RowSets are merged into one): no row may be lost or doubled
    let cases = { let mut c = cases; c.push((big.as_str(), big_rows, Some(u0.clone()), false)); c.push(("@compact", t0.clone(), Some(u0.clone()), false)); c };

    let after: Vec<String> = vec!["select k, v from t".into(), "select k, v from u".into(), "select a from w".into(), "insert into t values (100,1000)".into(), "select k, v from t".into()];
    let again: Vec<String> = vec!["select k, v from t".into(), "select k, v from u".into(), "select a from w".into()];
    let block = 64usize;
    // second scenario: t consists of 35 one-row RowSets, so that one DELETE writes a manifest transaction of 35 entries (a
    // transaction must stay ONE Begin..End group however many entries it has)
    let base_wide: Vec<String> = {
        let mut b: Vec<String> = vec!["create table z(a int)".into(), "insert into z values (1)".into(), "create table t(k int primary key, v int)".into()];
        for k in 1..=35 { b.push(format!("insert into t values ({k},{})", k * 10)); }
        b.extend(["create table u(k int primary key, v int)".to_string(), "insert into u values (7,70)".to_string(), "drop table z".to_string()]);
        b
    };
    let t0_wide: Rows = (1..=35).map(|k: i64| vec![k.to_string(), (k * 10).to_string()]).collect();
    let cases_wide: Vec<(&str, Rows, Option<Rows>, bool)> = vec![("delete from t where v > 0", vec![], Some(u0.clone()), false)];
    let scenarios: Vec<(&Vec<String>, &Rows, &Vec<(&str, Rows, Option<Rows>, bool)>, bool)> = vec![(&base, &t0, &cases, false), (&base_wide, &t0_wide, &cases_wide, true)];
    for (base, t0, cases, wide) in scenarios {
    for (stmt, t1, u1, w1) in cases {
        // learn the length of the record
        let (_, l0, l1) = match h::sql_session_crash(block, &base, stmt, usize::MAX, &[], &[]) { Ok(x) => x, Err(e) => return json!({"found": true, "tried": tried, "input": {"before": base, "interrupted": stmt}, "observed": format!("session failed: {e}")}) };
        let delta = (l1 - l0) as usize;
        // records with several entries (a DELETE over two RowSets, a DROP of a table with data) are cut at EVERY byte at every
        // depth: the positions between two entries are the ones where an unfinished transaction looks like a clean log
        let multi_entry = stmt.starts_with("delete from t where k >= 3") || stmt.starts_with("drop table") || *stmt == "@compact";
        let stride = if wide { match depth { 0 | 1 => 37, 2 => 11, _ => 1 } } else if multi_entry { 1 } else { match depth { 0 | 1 => (delta / 12).max(1), 2 => (delta / 60).max(1), _ => 1 } };
        let mut cuts: Vec<usize> = (0..=delta).step_by(stride).collect();
        for c in [1usize, 2, delta.saturating_sub(1), delta.saturating_sub(2), delta] { if !cuts.contains(&c) && c <= delta { cuts.push(c); } }
        // every cut is recovered directly; cuts inside the first bytes of the record (its `"Begin"`), and every third cut of the
        // multi-entry records, also with a first recovery that dies right after it has read (and truncated) the manifest
        let cuts: Vec<(usize, bool)> = cuts.iter().flat_map(|c| { let mut v = vec![(*c, false)]; if *c < 9 || (multi_entry && c % 3 == 0) { v.push((*c, true)); } v }).collect();
        for (cut, killed_recovery) in cuts {
            tried += 1;
            let input = || json!({"acknowledged": base, "interrupted": stmt, "manifest_bytes_of_its_record": delta, "manifest_cut_after_bytes": cut, "a_first_recovery_dies_after_reading_the_manifest": killed_recovery,
                "after_recovery": after, "after_second_recovery": again, "target_block_size": block});
            let (outs, _, _) = match h::sql_session_crash_ex(block, &base, stmt, cut, killed_recovery, &after, &again) { Ok(x) => x, Err(e) => return json!({"found": true, "tried": tried, "input": input(), "observed": format!("recovery failed: {e}")}) };
            let a = &outs[base.len() + 1..];
            let fail = |what: String| json!({"found": true, "tried": tried, "input": input(), "observed": what});
            // which state was recovered: old (statement invisible) or new (complete)?
            let t_got = match &a[0] { Ok(r) => sorted(r.clone()), Err(e) => return fail(format!("`select k, v from t` failed after recovery: {e}")) };
            let is_new_t = t_got == sorted(t1.clone());
            let is_old_t = t_got == sorted(t0.clone());
            let u_got: Option<Rows> = a[1].clone().ok().map(sorted);
            let is_new_u = u_got == u1.clone().map(sorted);
            let is_old_u = u_got == Some(sorted(u0.clone()));
            let w_got = a[2].is_ok();
            let new_state = is_new_t && is_new_u && w_got == *w1;
            let old_state = is_old_t && is_old_u && !w_got;
            if !(new_state || old_state) {
                return fail(format!("recovered state is neither the state before nor the state after the interrupted statement: t = {t_got:?}, u = {u_got:?}, w exists = {w_got}"));
            }
            if cut == delta && !new_state { return fail("the record of the statement is complete in the manifest but the statement is not visible after recovery".into()); }
            // accepts a new statement
            if let Err(e) = &a[3] { return fail(format!("insert after recovery failed: {e}")); }
            let mut want = t_got.clone(); want.push(vec!["100".into(), "1000".into()]);
            match &a[4] { Ok(r) if sorted(r.clone()) == sorted(want.clone()) => {} other => return fail(format!("after the post-recovery insert t = {other:?}, expected {:?}", sorted(want))) }
            // recovering again gives the same state
            let b = &outs[base.len() + 1 + after.len()..];
            match &b[0] { Ok(r) if sorted(r.clone()) == sorted(want.clone()) => {} other => return fail(format!("after the second recovery t = {other:?}, expected {:?}", sorted(want))) }
            if b[1].clone().ok().map(sorted) != u_got { return fail(format!("after the second recovery u = {:?}, before it {u_got:?}", b[1])); }
            if b[2].is_ok() != w_got { return fail("table w appeared / disappeared across the second recovery".into()); }
        }
    }
    }
    // DROP TABLE u, x: both tables go or none does (H37)
    {
        let mut base2 = base.clone();
        base2.push("create table x(k int primary key, v int)".into());
        base2.push("insert into x values (9,90)".into());
        let stmt = "drop table u, x";
        let probes: Vec<String> = vec!["select k, v from u".into(), "select k, v from x".into(), "select k, v from t".into()];
        if let Ok((_, l0, l1)) = h::sql_session_crash(block, &base2, stmt, usize::MAX, &[], &[]) {
            let delta = (l1 - l0) as usize;
            let stride = match depth { 0 | 1 => (delta / 12).max(1), _ => (delta / 60).max(1) };
            for cut in (0..=delta).step_by(stride) {
                tried += 1;
                let input = json!({"acknowledged": base2, "interrupted": stmt, "manifest_bytes_of_its_records": delta, "manifest_cut_after_bytes": cut, "after_recovery": probes});
                match h::sql_session_crash(block, &base2, stmt, cut, &probes, &[]) {
                    Ok((outs, _, _)) => {
                        let a = &outs[base2.len() + 1..];
                        let (u_there, x_there, t_ok) = (a[0].is_ok(), a[1].is_ok(), a[2].is_ok());
                        if !t_ok { return json!({"found": true, "tried": tried, "input": input, "observed": format!("table t is not readable after recovery: {:?}", a[2])}); }
                        if u_there != x_there {
                            return json!({"found": true, "tried": tried, "input": input, "observed": format!("the interrupted DROP TABLE is half applied after recovery: u exists = {u_there}, x exists = {x_there}")});
                        }
                    }
                    Err(e) => return json!({"found": true, "tried": tried, "input": input, "observed": format!("recovery failed: {e}")}),
                }
            }
        }
    }
    json!({"found": false, "tried": tried})
}
