#!/bin/sh
# Offline setup: nothing to download. Verus units need no build; the Kani target dir and the native replay crate
# are built lazily by the checks that need them (into /verif/.cache).
set -e
cd "$(dirname "$0")"
mkdir -p .cache .gen evidence findings
command -v verus >/dev/null || { echo "verus not on PATH"; exit 1; }
python3 -c "import json; json.load(open('MANIFEST.json'))"
echo setup ok
